------------------------------- MODULE Search -------------------------------
(***************************************************************************)
(* C15 - search algorithms recover their state from history at every crash *)
(* point.                                                                  *)
(*                                                                         *)
(* One live algorithm instance `alg` proposes DNAs and receives feedback;  *)
(* every proposal is persisted in `hist` (DNA with the metadata the        *)
(* algorithm attached, reward or 0 = "never arrived").  CrashRecover       *)
(* replaces the live instance by a fresh one that replays `hist`.  The     *)
(* property: CrashRecover is a stuttering step on the observable state     *)
(* (RecoverIsStutter) and history-determined algorithms continue with the  *)
(* same proposals whatever the future random draws are (ContinuesSame).    *)
(*                                                                         *)
(* The recover rule of every family exists twice: as the property intends  *)
(* it, and AS CODED today (pyglove/core/geno/{dna_generator,sweeping,      *)
(* random,deduping}.py, pyglove/ext/evolution/base.py), selected per rule  *)
(* by the constant set `Mirror`:                                           *)
(*   "dd_inner"    Deduping._replay calls generator._replay, not recover   *)
(*   "dd_inflight" Deduping._replay caches proposals without reward        *)
(*   "dd_draws"    inner draws dropped as duplicates are not re-drawn      *)
(*   "evo_gen"     Evolution.recover takes num_generations from initial    *)
(*                 individuals as well                                     *)
(*   "evo_order"   Evolution.recover rebuilds the population in proposal   *)
(*                 order, not in feedback order                            *)
(* With Mirror = {} the properties hold in the model; with a rule switched *)
(* on TLC exhibits the design-level counter-example, which the harness     *)
(* replays on the real code before it is believed.                         *)
(*                                                                         *)
(* Encoding: DNAs are 1..D (position in sweeping order); rewards are ints  *)
(* (0 = none), Rw(dna, i) is the deterministic feedback function of the    *)
(* harness (injective, so no tie-breaking rule is modelled); the seeded    *)
(* RNG is the sequence `stream` of draws made so far, extended lazily and  *)
(* constrained to prefixes of SeedStreams (the draws of real seeds,        *)
(* observed on the code and loaded from JSON) so that every behaviour can  *)
(* be concretised by a seed.  Children of an evolution step are chosen by  *)
(* TLC (`kids`); the harness plugs a scripted mutator into the shipped     *)
(* constructors to realise them.                                           *)
(***************************************************************************)
EXTENDS Integers, Sequences, FiniteSets, TLC, SequencesExt, Json, IOUtils

CONSTANTS Algs,      \* configuration names explored
          D,         \* size of the search space
          N,         \* max proposals per behaviour
          W,         \* max proposals in flight (1 = sequential)
          L,         \* max draws of the seeded RNG per behaviour
          MaxAtt,    \* Deduping.max_proposal_attempts
          MaxCrash,  \* crash/recover steps per behaviour
          InOrder,   \* TRUE: feedback arrives in proposal order
          PModes,    \* when the DNA (with metadata) is persisted: "propose" / "feedback"
          Mirror,    \* as-coded recover rules that are switched on
          LookAhead  \* m of ContinuesSame

VARIABLES cfg,     \* configuration of this behaviour
          pm,      \* persistence mode
          stream,  \* draws of the seeded RNG made so far (positions 1..)
          alg,     \* the live instance
          hist,    \* persisted history
          ncrash,
          stopped, \* propose() raised StopIteration: the search is over (no further proposals)
          act,     \* the last call (observation only)
          obs      \* ObsG(cfg, alg): what the harness compares with the real instance after the call
vars == <<cfg, pm, stream, alg, hist, ncrash, stopped, act, obs>>

SeedStreams == JsonDeserialize(IOEnv.STREAMS_FILE)      \* Seq(Seq(1..D)), one per real seed
SeedPrefixes == UNION { { SubSeq(SeedStreams[k], 1, n) : n \in 0..(IF L < Len(SeedStreams[k]) THEN L ELSE Len(SeedStreams[k])) }
                         : k \in 1..Len(SeedStreams) }

-----------------------------------------------------------------------------
(* Configurations: the shipped algorithms with small parameters.           *)
Conf(c) ==
  CASE c = "sweep"      -> [fam |-> "sweep"]
    [] c = "random"     -> [fam |-> "random"]
    [] c = "regevo"     -> [fam |-> "evo", rule |-> "last",  psize |-> 2, isize |-> 2, batch |-> 1]
    [] c = "hill"       -> [fam |-> "evo", rule |-> "top1",  psize |-> 1, isize |-> 1, batch |-> 1]
    [] c = "hill2"      -> [fam |-> "evo", rule |-> "top1",  psize |-> 1, isize |-> 2, batch |-> 2]
    [] c = "nsga2"      -> [fam |-> "evo", rule |-> "nsga2", psize |-> 2, isize |-> 4, batch |-> 1]
    [] c = "neat"       -> [fam |-> "evo", rule |-> "neat",  psize |-> 2, isize |-> 2, batch |-> 2]
    \* an Evolution whose operations read `step`: population_update = Last(n(step)) with step = feedbacks so far,
    \* reproduction = Top(1) >> mutator * k(step) with step = proposals so far (batch = the largest k)
    [] c = "sched"      -> [fam |-> "evo", rule |-> "sched", psize |-> 3, isize |-> 2, batch |-> 2]
    [] c = "dd_sweep"   -> [fam |-> "dedup", inner |-> "sweep",  coarse |-> TRUE,  maxdup |-> 1, auto |-> FALSE]
    [] c = "dd_random"  -> [fam |-> "dedup", inner |-> "random", coarse |-> FALSE, maxdup |-> 1, auto |-> FALSE]
    [] c = "dd_random2" -> [fam |-> "dedup", inner |-> "random", coarse |-> FALSE, maxdup |-> 2, auto |-> FALSE]
    [] c = "dd_regevo"  -> [fam |-> "dedup", inner |-> "regevo", coarse |-> FALSE, maxdup |-> 1, auto |-> FALSE]
    [] c = "dd_hill_auto" -> [fam |-> "dedup", inner |-> "hill", coarse |-> FALSE, maxdup |-> 1, auto |-> TRUE]

NeedsFb(c) == Conf(c).fam = "evo"
Det(c) == LET cf == Conf(c) IN
          cf.fam \in {"sweep", "random"} \/ (cf.fam = "dedup" /\ Conf(cf.inner).fam \in {"sweep", "random"})

RwTab(d) == IF d % 2 = 1 THEN d + 1 ELSE d - 1        \* injective on 1..D, not monotone
Rw(d, i) == 10 * RwTab(d) + i                         \* reward of the i-th proposal when its DNA is d
KeyOf(cf, d) == IF cf.coarse THEN (d + 1) \div 2 ELSE d

NumRw(h) == Cardinality({i \in 1..Len(h) : h[i].rw # 0})
NumInflight == Cardinality({i \in 1..Len(hist) : hist[i].rw = 0})
RECURSIVE SumDraws(_)
SumDraws(h) == IF h = <<>> THEN 0 ELSE h[1].draws + SumDraws(Tail(h))

(* A proposal as it leaves the algorithm: DNA + the metadata that matters. *)
NoD == [dna |-> 0, pid |-> 0, gen |-> 0, init |-> FALSE, arw |-> 0, draws |-> 0]
Entry(d) == [dna |-> d.dna, pid |-> d.pid, gen |-> d.gen, init |-> d.init, arw |-> d.arw,
             draws |-> d.draws, rw |-> 0, fsn |-> 0]

RECURSIVE NewG(_)
NewG(c) == LET cf == Conf(c) IN
  CASE cf.fam = "sweep"  -> [np |-> 0, nf |-> 0, last |-> 0]
    [] cf.fam = "random" -> [np |-> 0, nf |-> 0, rng |-> 0]
    [] cf.fam = "evo"    -> [np |-> 0, nf |-> 0, irng |-> 0, idone |-> FALSE, gen |-> 0,
                             pop |-> <<>>, el |-> <<>>, pend |-> <<>>]
    [] cf.fam = "dedup"  -> [np |-> 0, nf |-> 0, cache |-> [k \in 1..D |-> <<>>], in |-> NewG(cf.inner),
                             lost |-> 0]   \* inner proposals that never reached the history (dropped duplicates)

-----------------------------------------------------------------------------
(* Evolution: population bookkeeping (evolution/base.py _feedback).        *)
Ind(e, fsn, rw) == [pid |-> e.pid, dna |-> e.dna, gen |-> e.gen, init |-> e.init, fsn |-> fsn, rw |-> rw]

LastK(s, k) == IF Len(s) <= k THEN s ELSE SubSeq(s, Len(s) - k + 1, Len(s))
FirstK(s, k) == IF Len(s) <= k THEN s ELSE SubSeq(s, 1, k)
MaxRw(s) == CHOOSE m \in {s[i].rw : i \in 1..Len(s)} : \A j \in 1..Len(s) : s[j].rw <= m
BestOf(s) == s[CHOOSE i \in 1..Len(s) : s[i].rw = MaxRw(s) /\ \A j \in 1..(i-1) : s[j].rw # MaxRw(s)]
MaxGenOf(s) == CHOOSE m \in {s[i].gen : i \in 1..Len(s)} : \A j \in 1..Len(s) : s[j].gen <= m
ByRwDesc(s) == SortSeq(s, LAMBDA a, b : a.rw > b.rw)

SchedSize(step) == IF step % 2 = 1 THEN 1 ELSE 3          \* n(step) of the scheduled Last(n)
SchedBatch(step) == IF step % 2 = 0 THEN 2 ELSE 1         \* k(step) of the scheduled mutator * k
EffBatch(cf, g) == IF cf.rule = "sched" THEN SchedBatch(g.np) ELSE cf.batch

(* population_update(population + new individual, step = number of feedbacks received before this one) *)
PopUpdate(cf, g, pop1) ==
  CASE cf.rule = "last"  -> [pop |-> LastK(pop1, cf.psize), el |-> g.el]                 \* selectors.Last(n)
    [] cf.rule = "sched" -> [pop |-> LastK(pop1, SchedSize(g.nf)), el |-> g.el]          \* selectors.Last(n(step))
    [] cf.rule = "top1"  -> [pop |-> <<BestOf(pop1)>>, el |-> g.el]                      \* selectors.Top(1)
    [] cf.rule = "neat"  -> [pop |-> SelectSeq(pop1, LAMBDA x : x.gen = MaxGenOf(pop1)), \* latest generation only
                             el |-> g.el]
    [] cf.rule = "nsga2" -> IF Len(pop1) >= cf.psize                                     \* elites <- best n of elites + batch
                            THEN [pop |-> <<>>, el |-> FirstK(ByRwDesc(g.el \o pop1), cf.psize)]
                            ELSE [pop |-> pop1, el |-> g.el]

(* Body of Evolution._feedback; `count` = the caller (feedback()) increments num_feedbacks afterwards. *)
EvoFeedbackBody(cf, g, e, rw, count) ==
  LET fin == ~g.idone /\ g.nf >= cf.isize - 1
      pu  == PopUpdate(cf, g, Append(g.pop, Ind(e, g.nf + 1, rw)))
  IN [g EXCEPT !.idone = @ \/ fin, !.gen = IF fin THEN 1 ELSE @,
               !.pop = pu.pop, !.el = pu.el, !.nf = IF count THEN @ + 1 ELSE @]

CanEvolve(cf, g) ==      \* otherwise the reproduction of the real algorithm has no parents and raises
  CASE cf.rule \in {"last", "top1", "sched"} -> g.pop # <<>>
    [] cf.rule = "nsga2" -> g.el # <<>>
    [] cf.rule = "neat"  -> Len(g.pop) >= 2

-----------------------------------------------------------------------------
(* propose().  o = [ext |-> future draws, kids |-> children of an evolution step]. *)
DrawAt(i, ext) == IF i <= Len(stream) THEN stream[i] ELSE ext[i - Len(stream)]
Res(ok, bl, g, d, hi, used) == [ok |-> ok, blocked |-> bl, g |-> g, d |-> d, hi |-> hi, used |-> used]
Max2(a, b) == IF a > b THEN a ELSE b

EvoPropose(cf, g, o) ==
  IF g.pend # <<>>
  THEN Res(TRUE, FALSE, [g EXCEPT !.pend = Tail(@), !.np = @ + 1], Head(g.pend), 0, <<>>)
  ELSE IF g.idone
  THEN IF ~CanEvolve(cf, g) \/ Len(o.kids) # cf.batch THEN Res(FALSE, TRUE, g, NoD, 0, <<>>)
       ELSE LET nb == EffBatch(cf, g)       \* the oracle offers cf.batch children, the step decides how many are made
                kids == [i \in 1..nb |->
                           [NoD EXCEPT !.dna = o.kids[i], !.pid = g.np + i, !.gen = g.gen + 1, !.draws = 1]]
            IN Res(TRUE, FALSE, [g EXCEPT !.gen = @ + 1, !.pend = Tail(kids), !.np = @ + 1], kids[1], 0,
                   SubSeq(o.kids, 1, nb))
  ELSE LET i == g.irng + 1 IN
       IF i > Len(stream) + Len(o.ext) THEN Res(FALSE, TRUE, g, NoD, 0, <<>>)
       ELSE Res(TRUE, FALSE, [g EXCEPT !.irng = i, !.np = @ + 1],
                [NoD EXCEPT !.dna = DrawAt(i, o.ext), !.pid = g.np + 1, !.gen = g.gen + 1, !.init = TRUE, !.draws = 1],
                i, <<>>)

RECURSIVE ProposeG(_, _, _), DDLoop(_, _, _, _, _, _, _)
ProposeG(c, g, o) == LET cf == Conf(c) IN
  CASE cf.fam = "sweep" ->
         IF g.last < D
         THEN Res(TRUE, FALSE, [g EXCEPT !.last = @ + 1, !.np = @ + 1], [NoD EXCEPT !.dna = g.last + 1, !.draws = 1], 0, <<>>)
         ELSE Res(FALSE, FALSE, g, NoD, 0, <<>>)                      \* StopIteration
    [] cf.fam = "random" ->
         LET i == g.rng + 1 IN
         IF i > Len(stream) + Len(o.ext) THEN Res(FALSE, TRUE, g, NoD, 0, <<>>)
         ELSE Res(TRUE, FALSE, [g EXCEPT !.rng = i, !.np = @ + 1], [NoD EXCEPT !.dna = DrawAt(i, o.ext), !.draws = 1], i, <<>>)
    [] cf.fam = "evo" -> EvoPropose(cf, g, o)
    [] cf.fam = "dedup" ->
         LET r == DDLoop(cf, g.in, g.cache, 0, o, 0, <<>>) IN
         IF ~r.ok THEN Res(FALSE, r.blocked, [g EXCEPT !.in = r.g, !.lost = @ + (r.g.np - g.in.np)], NoD, r.hi, r.used)
         ELSE Res(TRUE, FALSE,
                  [g EXCEPT !.in = r.g, !.np = @ + 1, !.lost = @ + (r.g.np - g.in.np) - 1,
                            !.cache = IF NeedsFb(cf.inner) THEN @
                                      ELSE [@ EXCEPT ![KeyOf(cf, r.d.dna)] = Append(@, 0)]],
                  r.d, r.hi, r.used)

(* The attempt loop of Deduping._propose. *)
DDLoop(cf, gi, cache, att, o, hi, used) ==
  IF att = MaxAtt THEN Res(FALSE, FALSE, gi, NoD, hi, used)                       \* StopIteration
  ELSE LET r == ProposeG(cf.inner, gi, o)
           h2 == Max2(hi, r.hi)
           u2 == IF r.used # <<>> THEN r.used ELSE used IN
       IF ~r.ok THEN Res(FALSE, r.blocked, r.g, NoD, h2, u2)                       \* inner StopIteration propagates
       ELSE LET k == KeyOf(cf, r.d.dna) IN
            IF Len(cache[k]) < cf.maxdup
            THEN Res(TRUE, FALSE, r.g, [r.d EXCEPT !.draws = att + 1], h2, u2)
            ELSE IF cf.auto /\ NeedsFb(cf.inner)
            THEN Res(TRUE, FALSE, r.g, [r.d EXCEPT !.draws = att + 1, !.arw = MaxRw([i \in 1..Len(cache[k]) |-> [rw |-> cache[k][i]]])], h2, u2)
            ELSE DDLoop(cf, r.g, cache, att + 1, o, h2, u2)

-----------------------------------------------------------------------------
(* feedback(dna, reward) *)
RECURSIVE FeedbackG(_, _, _, _)
FeedbackG(c, g, e, rw) == LET cf == Conf(c) IN
  CASE cf.fam \in {"sweep", "random"} -> [g EXCEPT !.nf = @ + 1]
    [] cf.fam = "evo" -> EvoFeedbackBody(cf, g, e, rw, TRUE)
    [] cf.fam = "dedup" ->
         IF NeedsFb(cf.inner)
         THEN [g EXCEPT !.in = FeedbackG(cf.inner, g.in, e, rw),
                        !.cache = [@ EXCEPT ![KeyOf(cf, e.dna)] = Append(@, rw)], !.nf = @ + 1]
         ELSE [g EXCEPT !.nf = @ + 1]

(* feedback_sequence_number the algorithm writes into the DNA metadata at feedback time (0 = none) *)
FsnOf(c, g) == LET cf == Conf(c) IN
  IF cf.fam = "evo" THEN g.nf + 1
  ELSE IF cf.fam = "dedup" /\ NeedsFb(cf.inner) THEN g.in.nf + 1 ELSE 0

-----------------------------------------------------------------------------
(* recover(history) on a fresh instance *)
RECURSIVE FoldFb(_, _, _, _)
FoldFb(cf, g, es, i) ==       \* Evolution.recover: rewarded entries, one by one
  IF i > Len(es) THEN g
  ELSE LET e == es[i]
           g2 == IF e.fsn = 0 THEN EvoFeedbackBody(cf, g, e, e.rw, TRUE)             \* self.feedback(dna, reward)
                 ELSE LET pu == PopUpdate(cf, g, Append(g.pop, Ind(e, e.fsn, e.rw)))  \* metadata already there
                      IN [g EXCEPT !.pop = pu.pop, !.el = pu.el, !.nf = @ + 1]
       IN FoldFb(cf, g2, es, i + 1)

EvoRecover(c, h) ==
  LET cf == Conf(c)
      rewarded == SelectSeq(h, LAMBDA e : e.rw # 0)
      ordered == IF "evo_order" \in Mirror \/ \E i \in 1..Len(rewarded) : rewarded[i].fsn = 0
                 THEN rewarded                                           \* proposal order (as coded)
                 ELSE SortSeq(rewarded, LAMBDA a, b : a.fsn < b.fsn)     \* the order in which feedback arrived
      g1 == FoldFb(cf, NewG(c), ordered, 1)
      icnt == Cardinality({i \in 1..Len(h) : h[i].rw # 0 /\ h[i].init})
      idone == g1.idone \/ icnt >= cf.isize
      gens == {h[i].gen : i \in 1..Len(h)}
      evgens == {h[i].gen : i \in {j \in 1..Len(h) : ~h[j].init}}
      maxOf(S) == CHOOSE m \in S : \A x \in S : x <= m
      gen == IF "evo_gen" \in Mirror
             THEN (IF gens = {} THEN 0 ELSE maxOf(gens))
             ELSE (IF evgens # {} THEN maxOf(evgens) ELSE IF idone THEN 1 ELSE 0)
  IN [g1 EXCEPT !.np = Len(h), !.idone = idone, !.gen = gen, !.irng = icnt, !.pend = <<>>]

RECURSIVE DDReplayInner(_, _, _, _), DDCache(_, _, _, _)
DDReplayInner(ic, g, h, i) ==      \* Deduping._replay as coded: generator._replay(i, dna, reward)
  IF i > Len(h) THEN g
  ELSE LET icf == Conf(ic)
           e == h[i]
           g2 == CASE icf.fam = "sweep"  -> [g EXCEPT !.last = e.dna]
                   [] icf.fam = "random" -> [g EXCEPT !.rng = @ + 1]
                   [] icf.fam = "evo"    -> IF e.rw # 0 THEN EvoFeedbackBody(icf, g, e, e.rw, FALSE) ELSE g
       IN DDReplayInner(ic, g2, h, i + 1)

DDCache(cf, cache, h, i) ==
  IF i > Len(h) THEN cache
  ELSE LET e == h[i]
           add == e.rw # 0 \/ ~NeedsFb(cf.inner) \/ "dd_inflight" \in Mirror
       IN DDCache(cf, IF add THEN [cache EXCEPT ![KeyOf(cf, e.dna)] = Append(@, e.rw)] ELSE cache, h, i + 1)

(* v: which of the admissible values the wrapped evolution's proposal counter takes when duplicates were *)
(* dropped ("net" = the history length, "exact" = including the dropped proposals): the statement does  *)
(* not fix it (the observable state compares the counter net of the lost proposals).                    *)
RecVariants(c, h) == IF Conf(c).fam = "dedup" /\ NeedsFb(Conf(c).inner) /\ SumDraws(h) # Len(h)
                     THEN {"net", "exact"} ELSE {"net"}
RecoverG(c, h, v) == LET cf == Conf(c) IN
  CASE cf.fam = "sweep"  -> [np |-> Len(h), nf |-> NumRw(h), last |-> IF h = <<>> THEN 0 ELSE h[Len(h)].dna]
    [] cf.fam = "random" -> [np |-> Len(h), nf |-> NumRw(h), rng |-> Len(h)]
    [] cf.fam = "evo"    -> EvoRecover(c, h)
    [] cf.fam = "dedup"  ->
         LET ic == cf.inner
             icf == Conf(ic)
             inner == IF "dd_inner" \in Mirror THEN DDReplayInner(ic, NewG(ic), h, 1)
                      ELSE CASE icf.fam = "sweep"  -> [np |-> Len(h), nf |-> NumRw(h), last |-> IF h = <<>> THEN 0 ELSE h[Len(h)].dna]
                             [] icf.fam = "random" -> [np |-> Len(h), nf |-> NumRw(h),
                                                       rng |-> IF "dd_draws" \in Mirror THEN Len(h) ELSE SumDraws(h)]
                             [] icf.fam = "evo"    -> [EvoRecover(ic, h) EXCEPT !.np = IF v = "exact" THEN SumDraws(h) ELSE @]
         IN [np |-> Len(h), nf |-> NumRw(h), cache |-> DDCache(cf, [k \in 1..D |-> <<>>], h, 1), in |-> inner,
             lost |-> IF "dd_inner" \notin Mirror /\ icf.fam = "evo" /\ v = "exact" THEN SumDraws(h) - Len(h) ELSE 0]

-----------------------------------------------------------------------------
(* Observable state (what the property statement lists), as a record of clauses. *)
EvoObs(g) == [np |-> g.np, nf |-> g.nf, idone |-> g.idone, gen |-> g.gen, pop |-> g.pop, el |-> g.el]
NoEvoObs(g) == [np |-> g.np, nf |-> g.nf, idone |-> FALSE, gen |-> 0, pop |-> <<>>, el |-> <<>>]
ObsG(c, g) == LET cf == Conf(c) IN
  CASE cf.fam \in {"sweep", "random"} -> [top |-> NoEvoObs(g), cache |-> <<>>, inner |-> <<>>]
    [] cf.fam = "evo" -> [top |-> EvoObs(g), cache |-> <<>>, inner |-> <<>>]
    [] cf.fam = "dedup" ->
         [top |-> NoEvoObs(g),
          \* de-duplication memory: per key the rewards seen (as a bag); for an inner generator without
          \* feedback only the number of proposals counts (the stored values are never used)
          cache |-> [k \in 1..D |-> IF NeedsFb(cf.inner) THEN SortSeq(g.cache[k], LAMBDA a, b : a < b)
                                    ELSE <<Len(g.cache[k])>>],
          \* the wrapped generator's observable state matters when it takes feedback (its counters decide
          \* when an evolution leaves the initial phase); its proposal counter is compared net of the
          \* proposals that never reached the history (dropped duplicates cannot be recovered from it)
          inner |-> IF NeedsFb(cf.inner) THEN [EvoObs(g.in) EXCEPT !.np = @ - g.lost] ELSE <<>>]

RECURSIVE NextProps(_, _, _, _)
NextProps(c, g, m, ext) ==
  IF m = 0 THEN <<>>
  ELSE LET r == ProposeG(c, g, [ext |-> ext, kids |-> <<>>]) IN
       IF r.blocked THEN <<-1>> ELSE IF ~r.ok THEN <<0>> ELSE <<r.d.dna>> \o NextProps(c, r.g, m - 1, ext)

-----------------------------------------------------------------------------
ExtLen(c) == LET cf == Conf(c) IN
  CASE cf.fam = "sweep" -> 0
    [] cf.fam \in {"random", "evo"} -> 1
    [] cf.fam = "dedup" -> IF Conf(cf.inner).fam = "sweep" THEN 0 ELSE MaxAtt
KidLen(c) == LET cf == Conf(c) IN
  CASE cf.fam \in {"sweep", "random"} -> 0
    [] cf.fam = "evo" -> cf.batch
    [] cf.fam = "dedup" -> IF NeedsFb(cf.inner) THEN Conf(cf.inner).batch ELSE 0
Oracles(c) == [ext : [1..ExtLen(c) -> 1..D], kids : [1..KidLen(c) -> 1..D]]

Init == /\ cfg \in Algs
        \* when the DNA is persisted only matters for algorithms that write metadata at feedback time
        /\ pm \in (IF NeedsFb(cfg) \/ (Conf(cfg).fam = "dedup" /\ NeedsFb(Conf(cfg).inner)) \/ "feedback" \notin PModes
                   THEN PModes ELSE {"feedback"})
        /\ stream = <<>>
        /\ alg = NewG(cfg)
        /\ hist = <<>>
        /\ ncrash = 0
        /\ stopped = FALSE
        /\ act = <<"Init">>
        /\ obs = ObsG(cfg, alg)

Propose ==
  /\ ~stopped
  /\ Len(hist) < N
  /\ NumInflight < W
  /\ \E o \in Oracles(cfg) :
       LET r == ProposeG(cfg, alg, o)
           st == IF r.hi > Len(stream) THEN stream \o SubSeq(o.ext, 1, r.hi - Len(stream)) ELSE stream
       IN /\ ~r.blocked
          /\ Len(st) <= L
          /\ st \in SeedPrefixes
          /\ stream' = st
          /\ alg' = r.g
          /\ hist' = IF r.ok THEN Append(hist, Entry(r.d)) ELSE hist
          /\ stopped' = ~r.ok
          /\ act' = IF r.ok THEN <<"Propose", r.d.dna, r.used>> ELSE <<"ProposeStop", 0, r.used>>
          /\ obs' = ObsG(cfg, r.g)
  /\ UNCHANGED <<cfg, pm, ncrash>>

Feedback(i) ==
  /\ hist[i].rw = 0
  /\ (InOrder \/ pm = "propose") => \A j \in 1..(i - 1) : hist[j].rw # 0
  /\ LET e == hist[i]
         rw == IF e.arw # 0 THEN e.arw ELSE Rw(e.dna, i)
     IN /\ alg' = FeedbackG(cfg, alg, e, rw)
        /\ hist' = [hist EXCEPT ![i].rw = rw, ![i].fsn = IF pm = "feedback" THEN FsnOf(cfg, alg) ELSE 0]
  /\ act' = <<"Feedback", i>>
  /\ obs' = ObsG(cfg, alg')
  /\ UNCHANGED <<cfg, pm, stream, ncrash, stopped>>

CrashRecover ==
  /\ ncrash < MaxCrash
  \* a Deduping.propose that gave up (StopIteration) consumed inner proposals that leave no trace in the
  \* history, and the search is over at that point: recovery after it is not explored
  /\ stopped => Conf(cfg).fam # "dedup"
  /\ \E v \in RecVariants(cfg, hist) : alg' = RecoverG(cfg, hist, v)
  /\ ncrash' = ncrash + 1
  /\ act' = <<"Crash">>
  /\ obs' = ObsG(cfg, alg')
  /\ UNCHANGED <<cfg, pm, stream, hist, stopped>>

Next == Propose \/ (\E i \in 1..Len(hist) : Feedback(i)) \/ CrashRecover
Spec == Init /\ [][Next]_vars

-----------------------------------------------------------------------------
(* The property. *)
IsCrash == act'[1] = "Crash"
RecoverIsStutter == [][IsCrash => ObsG(cfg, alg') = ObsG(cfg, alg)]_vars
ContinuesSame ==
  [][(IsCrash /\ Det(cfg) /\ ~stopped) =>
       \A ext \in [1..(LookAhead * (IF ExtLen(cfg) = 0 THEN 0 ELSE MaxAtt)) -> 1..D] :
          NextProps(cfg, alg', LookAhead, ext) = NextProps(cfg, alg, LookAhead, ext)]_vars

(* Sanity of the live state (also guards the model itself). *)
CountsOK == alg.np = Len(hist) /\ alg.nf = NumRw(hist)
InflightOK == NumInflight <= W
PopFromHist ==
  LET g == IF Conf(cfg).fam = "dedup" THEN alg.in ELSE alg IN
  (Conf(cfg).fam = "evo" \/ (Conf(cfg).fam = "dedup" /\ NeedsFb(Conf(cfg).inner))) =>
    \A x \in {g.pop[i] : i \in 1..Len(g.pop)} \cup {g.el[i] : i \in 1..Len(g.el)} :
       \E i \in 1..Len(hist) : hist[i].dna = x.dna /\ hist[i].rw = x.rw /\ hist[i].pid = x.pid
DedupMemoryOK ==
  Conf(cfg).fam = "dedup" =>
    LET RECURSIVE Tot(_)
        Tot(k) == IF k = 0 THEN 0 ELSE Len(alg.cache[k]) + Tot(k - 1)
    IN Tot(D) = IF NeedsFb(Conf(cfg).inner) THEN NumRw(hist) ELSE Len(hist)
=============================================================================
