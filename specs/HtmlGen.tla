------------------------------ MODULE HtmlGen ------------------------------
(* C20 - the universe of rendering cases: view-option combinations and value shapes.               *)
(* TLC enumerates both sets and exports them; the harness renders a deterministic sample of the    *)
(* product (all of it is far beyond the time budget) with strings/keys from metacharacter classes. *)
EXTENDS Integers, Sequences, FiniteSets, TLC, SequencesExt, Json, IOUtils

CONSTANTS MaxDepth      \* nesting depth of the value shapes

\* view options of pg.to_html_str / HtmlTreeView.render  (9 = None)
Options == [collapse_level : {0, 1, 9},
            enable_summary_tooltip : BOOLEAN,
            enable_key_tooltip : BOOLEAN,
            key_style : {"summary", "label"},
            keys_filter : {"none", "include_first", "exclude_first"},
            uncollapse_first : BOOLEAN,
            max_summary_len_for_str : {80, 8},
            enable_summary_for_str : BOOLEAN,
            root_name : BOOLEAN]             \* a (user supplied) name for the root value

\* value shapes: leaves "s" (a string from the document's metacharacter class), "n" (a number),
\* "z" (None/bool); containers with one or two children; every dict key / object field is a user key
Leaves == {<<"s">>, <<"n">>, <<"z">>}
RECURSIVE Shapes(_)
Shapes(d) ==
  IF d = 0 THEN Leaves
  ELSE LET S == Shapes(d - 1) IN
       Leaves
       \cup {<<"dict1", c>> : c \in S}
       \cup {<<"dict2", c, <<"s">>>> : c \in S}
       \cup {<<"list1", c>> : c \in S}
       \cup {<<"list2", <<"s">>, c>> : c \in S}
       \cup {<<"obj", c, <<"s">>>> : c \in S}        \* pg.Object with two fields (and a docstring)
       \cup {<<"tuple", c>> : c \in S}

\* every option value and every constructor appears (sanity of the universe itself)
ASSUME \A k \in {"dict1", "dict2", "list1", "list2", "obj", "tuple"} : \E s \in Shapes(MaxDepth) : s[1] = k
ASSUME Cardinality(Options) = 3 * 2 * 2 * 2 * 3 * 2 * 2 * 2 * 2

ASSUME JsonSerialize(IOEnv.OUT_FILE,
         [options |-> SetToSeq(Options), shapes |-> SetToSeq(Shapes(MaxDepth))])
VARIABLE x
Spec == x = 0 /\ [][x' = x]_x
=============================================================================
