------------------------------ MODULE HtmlGen ------------------------------
(* C20 - the universe of rendering cases: view-option combinations and value shapes.               *)
(* TLC enumerates both sets and exports them; the harness renders a deterministic sample of the    *)
(* product (all of it is far beyond the time budget) with strings/keys from metacharacter classes. *)
EXTENDS Integers, Sequences, FiniteSets, TLC, SequencesExt, Json, IOUtils

CONSTANTS MaxDepth      \* nesting depth of the value shapes

\* view options of pg.to_html_str / HtmlTreeView.render  (9 = None)
Options == [collapse_level : {0, 1, 9},
            enable_summary_tooltip : BOOLEAN,
            enable_key_tooltip : BOOLEAN,
            key_style : {"summary", "label"},
            \* include_keys / exclude_keys: absent, a LIST naming an existing key, a list naming a missing key,
            \* a list naming both, or a callable
            keys_filter : {"none", "include_first", "exclude_first", "exclude_missing",
                           "include_first_and_missing", "include_first_callable", "exclude_first_callable",
                           \* ONE-SHOT iterables (the parameters are annotated Iterable): a generator over all
                           \* keys in reverse container order, an iterator, a map object
                           "include_all_reversed_generator", "exclude_first_iterator", "include_first_map"},
            uncollapse_first : BOOLEAN,
            max_summary_len_for_str : {80, 8},
            enable_summary_for_str : BOOLEAN,
            root_name : BOOLEAN]             \* a (user supplied) name for the root value

\* value shapes: leaves "s" (a string from the document's metacharacter class), "n" (a number),
\* "z" (None/bool); containers with one or two children; every dict key / object field is a user key
\* "c": a CLASS OBJECT as a leaf (not an instance), created dynamically with a hostile __name__
Leaves == {<<"s">>, <<"n">>, <<"z">>, <<"c">>}
RECURSIVE Shapes(_)
Shapes(d) ==
  IF d = 0 THEN Leaves
  ELSE LET S == Shapes(d - 1) IN
       Leaves
       \cup {<<"dict1", c>> : c \in S}
       \cup {<<"dict2", c, <<"s">>>> : c \in S}
       \cup {<<"list1", c>> : c \in S}
       \cup {<<"list2", <<"s">>, c>> : c \in S}
       \cup {<<"obj", c, <<"s">>>> : c \in S}        \* pg.Object with two fields (and a docstring)
       \cup {<<"tuple", c>> : c \in S}
       \* plain (non-symbolic) Python containers: at the root they stay plain all the way down, inside a
       \* tuple too; inside a symbolic container they are converted on assignment
       \cup {<<"pdict1", c>> : c \in S}
       \cup {<<"pdict2", c, <<"s">>>> : c \in S}
       \cup {<<"plist1", c>> : c \in S}
       \cup {<<"plist2", <<"s">>, c>> : c \in S}

\* every option value and every constructor appears (sanity of the universe itself)
ASSUME \A k \in {"dict1", "dict2", "list1", "list2", "obj", "tuple", "pdict1", "pdict2", "plist1", "plist2"} : \E s \in Shapes(MaxDepth) : s[1] = k
ASSUME Cardinality(Options) = 3 * 2 * 2 * 2 * 10 * 2 * 2 * 2 * 2

\* the shipped HTML controls (pyglove/core/views/html/controls) with their option combinations; all
\* parameters are small ints (meaning per control in pgverif/htmldoc.py: build_control);
\* wrap: 0 = rendered on its own, 1 = as a value inside a pg.Dict, 2 = inside a plain list
\* upd: the HISTORY of the control before the rendering that is validated:
\*   0 = rendered as constructed; 1 = changed through its public update API (Tooltip.update, Label.update,
\*   TabControl.append/insert/select, SubProgress.increment/update, ProgressBar.update ...) before any
\*   rendering; 2 = rendered, then changed through the update API, then rendered again.
\* Law compared by the harness: the document equals the rendering of a control CONSTRUCTED with the fields
\* the updated control now holds (ids aside) - every leaf it currently holds is shown, nothing stale.
\* taint: WHICH str field of the control carries the hostile user datum of the document's metacharacter class
\* (all other str fields are plain).  A plain str is DATA in every field: `Tooltip` escapes a str content, and
\* `Label.update(text=str)` sets `textContent` - only `Html` objects are markup.  (`Tooltip.for_element` is a CSS
\* selector written into a style sheet: code, not data - never tainted; `Tab.content` is declared `Html`, a str
\* given for it is converted to markup by declaration - not tainted either.)
TaintFields(name) ==
  CASE name \in {"label", "badge"} -> {"text", "link", "target", "id", "css_class", "style_value", "tooltip"}
    [] name = "tab"        -> {"tab_label", "tab_name", "tab_css", "id", "css_class", "style_value"}
    [] name = "labelgroup" -> {"text", "name_text", "id", "css_class"}
    [] name = "tooltip"    -> {"content", "id", "css_class", "style_value"}
    [] name = "progress"   -> {"sub_name", "id", "css_class", "sub_css"}
Ctl(name, P1, P2, P3, P4) == [ctl : {name}, p1 : P1, p2 : P2, p3 : P3, p4 : P4, wrap : 0..2, upd : 0..2,
                              taint : TaintFields(name) \cup {"none"}]
Interactive(c) == CASE c.ctl = "tab" -> TRUE
                    [] c.ctl \in {"label", "badge", "labelgroup", "progress"} -> c.p3 = 1
                    [] c.ctl = "tooltip" -> c.p2 = 1
AllControls ==
  \* TabControl: p1 tab_position (0 top, 1 left), p2 number of tabs, p3 selected, p4 kind of tab content
  {c \in Ctl("tab", 0..1, 1..3, 0..2, 0..2) : c.p3 < c.p2}
  \* Label / Badge: p1 tooltip, p2 link (+target), p3 interactive, p4 css classes and styles given
  \cup Ctl("label", 0..1, 0..1, 0..1, 0..1) \cup Ctl("badge", 0..1, 0..1, 0..1, 0..1)
  \* LabelGroup: p1 number of labels, p2 with a name label, p3 interactive
  \cup Ctl("labelgroup", 1..2, 0..1, 0..1, {0})
  \* Tooltip: p1 content is str (0) / Html (1), p2 interactive
  \cup Ctl("tooltip", 0..1, 0..1, {0}, {0})
  \* ProgressBar: p1 number of sub-progresses, p2 total None (0) / 10 (1), p3 interactive
  \cup Ctl("progress", 0..2, 0..1, 0..1, {0})

\* only interactive controls accept updates
\* ... and the tainted variants are rendered as constructed, on their own (bounds the product)
Controls == {c \in AllControls : /\ c.upd > 0 => Interactive(c)
                                 /\ c.taint # "none" => (c.upd = 0 /\ c.wrap = 0)
                                 /\ c.taint \in {"link", "target"} => c.p2 = 1
                                 /\ c.taint = "tooltip" => c.p1 = 1
                                 /\ c.taint = "name_text" => c.p2 = 1
                                 /\ c.taint \in {"sub_name", "sub_css"} => c.p1 > 0
                                 /\ TRUE}
ASSUME \A n \in {"tab", "label", "badge", "labelgroup", "tooltip", "progress"} :
         \A f \in TaintFields(n) : \E c \in Controls : c.ctl = n /\ c.taint = f

ASSUME \A n \in {"tab", "label", "badge", "labelgroup", "tooltip", "progress"} :
         \A u \in 0..2 : \E c \in Controls : c.ctl = n /\ c.upd = u
ASSUME \A pos \in 0..1 : \E c \in Controls : c.ctl = "tab" /\ c.p1 = pos

\* what happened on the rendering thread BEFORE the document is rendered: renderings (or option scopes)
\* that carry options and RAISE part-way.  The document must then equal its rendering on a fresh thread
\* (Restores of C17 for view_options, with rendering as the probe).
Faults == {"fail_repr", "fail_view_id", "fail_in_scope", "fail_extension"}
Histories == {<<>>} \cup {<<f>> : f \in Faults} \cup {<<f, g>> : f \in Faults, g \in Faults}

ASSUME JsonSerialize(IOEnv.OUT_FILE,
         [histories |-> SetToSeq(Histories), options |-> SetToSeq(Options), shapes |-> SetToSeq(Shapes(MaxDepth)),
          controls |-> SetToSeq(Controls)])
VARIABLE x
Spec == x = 0 /\ [][x' = x]_x
=============================================================================
