SPECIFICATION SpecFrom
CONSTANTS
  MaxNodes = 4
  Keys = {1, 2}
  Leafs = {101, 150}
  Shapes = {200, 211, 221, 222}
  MaxLen = 2
  Acts = {"dict", "list", "perm", "inplace", "facts"}
  Mirror = FALSE
  MaxLevel = 2
  InitKinds <- IK_DictList
  SimK = 0
