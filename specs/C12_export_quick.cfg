SPECIFICATION OpsSpec
CONSTANTS
  IterUniverse <- U_tiny
  MaxSize = 60
  OpsUniverse <- U_ops
  Mirror = FALSE
  ShareMemo = FALSE
  MaxOps = 0
  ViewUniverse <- U_views_quick
  NumTrees = 3
