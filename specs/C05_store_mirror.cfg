SPECIFICATION Spec
CONSTANTS
  FSKinds = {"mem"}
  PathIds = {1, 2, 3}
  Vals = {2, 5}
  MaxRecs = 2
  MemPaths = {1, 2, 3}
  Avoid = {}
  Mirror = TRUE
  MaxLevel = 5
  SimK = 0
CONSTRAINT LevelBound
INVARIANT ReadYourWrites
