SPECIFICATION Spec
CONSTANTS
  MaxNodes = 6
  Keys = {1, 2}
  Leafs = {101, 150}
  Shapes = {200, 201, 210, 211, 220, 221, 222}
  MaxLen = 3
  Acts = {"dict", "list", "perm", "clone", "forget", "slice", "rebind", "inplace", "json", "facts", "nscope", "construct"}
  Mirror = FALSE
  MaxLevel = 40
  InitKinds <- IK_Sd3Dict
  SimK = 1
CONSTRAINT LevelBound
INVARIANT TreeOK
INVARIANT OnePlace
INVARIANT DetachedOK
INVARIANT LookupOK
INVARIANT NoDangling
