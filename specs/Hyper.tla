-------------------------------- MODULE Hyper --------------------------------
(***************************************************************************)
(* C13: hyper values (object templates with search-space placeholders).    *)
(* EXTENDS Geno: the specification of a template is a Geno space, its DNAs *)
(* are Geno DNAs, and the behaviours of this module are the ODOMETER       *)
(* behaviours of Geno over the template's space -- every state carries a   *)
(* DNA `cur`; Val / Re are the value it decodes to and the DNA that value  *)
(* encodes to.                                                             *)
(*                                                                         *)
(* Templates (and values: a value is a template, possibly without any      *)
(* placeholder left):                                                      *)
(*   [h |-> "leaf", v |-> n]            a constant                         *)
(*   [h |-> "fleaf", v |-> tenths]      a float produced by a Float        *)
(*   [h |-> "dict" | "list", items |-> Seq(template)]                      *)
(*   [h |-> "obj", c |-> 0 | 1, items]  object of class A<n> / its subclass*)
(*   [h |-> "ref", path]         a derived value (reference to another item)*)
(*   [h |-> "oneof", cands |-> Seq(template)]                              *)
(*   [h |-> "manyof", k, cands, distinct, sorted]                          *)
(*   [h |-> "float", lo, hi]     [h |-> "custom"]                          *)
(*   [h |-> "tobj", fs |-> Seq(field spec), items]  an object of a class   *)
(*        with TYPED fields; field spec [k |-> "float" | "int" | "enum" |  *)
(*        "intlist", lo, hi]  (NONE = no bound; enum: the values {lo, hi}) *)
(* where-filters: "all", "oneof" (only OneOf placeholders), "choices"      *)
(* (OneOf and ManyOf, not Float / custom), "many3" (placeholders with      *)
(* exactly 3 candidates)                                                   *)
(***************************************************************************)
EXTENDS Geno

Leaf(n) == [h |-> "leaf", v |-> n]
FLeaf(x) == [h |-> "fleaf", v |-> x]
DictT(items) == [h |-> "dict", items |-> items]
ListT(items) == [h |-> "list", items |-> items]
ObjT(items) == [h |-> "obj", c |-> 0, items |-> items]     \* an object of class A<n>
SubT(items) == [h |-> "obj", c |-> 1, items |-> items]     \* an object of a SUBCLASS of A<n> (same fields)
Ref(path) == [h |-> "ref", path |-> path]                  \* derived value: ValueReference to the item at `path`
                                                           \* (1-based positions from the root of the value)
OneOf(cands) == [h |-> "oneof", cands |-> cands]
ManyOf(k, cands, d, s) == [h |-> "manyof", k |-> k, cands |-> cands, distinct |-> d, sorted |-> s]
FloatT(lo, hi) == [h |-> "float", lo |-> lo, hi |-> hi]
CustomT == [h |-> "custom"]

NONE == 9999
FS(k, lo, hi) == [k |-> k, lo |-> lo, hi |-> hi]
TObj(fs, items) == [h |-> "tobj", fs |-> fs, items |-> items]

IsH(t) == t.h \in {"oneof", "manyof", "float", "custom"}
IsChoice(t) == t.h \in {"oneof", "manyof"}
IsBox(t) == t.h \in {"dict", "list", "obj", "tobj"}

\* does the where-filter select this placeholder?
W(w, t) == \/ w = "all"
           \/ w = "oneof" /\ t.h = "oneof"
           \/ w = "choices" /\ IsChoice(t)
           \/ w = "many3" /\ IsChoice(t) /\ Len(t.cands) = 3

\* custom hypers decode a string number s to the constant 50 + s (a user supplied bijection)
CustomDecode(s) == Leaf(50 + s)

\* ---------------------------------------------------------------- the template's specification
\* selected placeholders, depth first; a placeholder that is filtered out is searched like a container
RECURSIVE PrimSpecs(_,_)
RECURSIVE TemplateSpec(_,_)
PrimSpecs(t, w) ==
  IF IsH(t) /\ W(w, t)
  THEN IF t.h = "oneof" THEN <<Ch(1, [i \in 1..Len(t.cands) |-> TemplateSpec(t.cands[i], w)], TRUE, FALSE)>>
       ELSE IF t.h = "manyof"
       THEN <<Ch(t.k, [i \in 1..Len(t.cands) |-> TemplateSpec(t.cands[i], w)], t.distinct, t.sorted)>>
       ELSE IF t.h = "float" THEN <<Fl(t.lo, t.hi)>>
       ELSE <<Cu>>
  ELSE IF IsChoice(t) THEN FlattenSeq([i \in 1..Len(t.cands) |-> PrimSpecs(t.cands[i], w)])
  ELSE IF IsBox(t) THEN FlattenSeq([i \in 1..Len(t.items) |-> PrimSpecs(t.items[i], w)])
  ELSE <<>>
TemplateSpec(t, w) == Sp(PrimSpecs(t, w))

\* ---------------------------------------------------------------- decode
\* Dec(t, w, ds, i): decode t consuming the element DNAs ds[i], ds[i+1], ...; returns the value and the next index
RECURSIVE Dec(_,_,_,_)
RECURSIVE DecSeq(_,_,_,_)
DecPrim(t, w, dd) ==
  IF t.h = "oneof" THEN Dec(t.cands[dd[1][1] + 1], w, dd[1][2], 1).v
  ELSE IF t.h = "manyof" THEN ListT([j \in 1..t.k |-> Dec(t.cands[dd[j][1] + 1], w, dd[j][2], 1).v])
  ELSE IF t.h = "float" THEN FLeaf(dd)
  ELSE CustomDecode(dd)
DecSeq(ts, w, ds, i) ==
  IF ts = <<>> THEN [vs |-> <<>>, i |-> i]
  ELSE LET a == Dec(Head(ts), w, ds, i)
           r == DecSeq(Tail(ts), w, ds, a.i)
       IN [vs |-> <<a.v>> \o r.vs, i |-> r.i]
Dec(t, w, ds, i) ==
  IF IsH(t) /\ W(w, t) THEN [v |-> DecPrim(t, w, ds[i]), i |-> i + 1]
  ELSE IF IsChoice(t) THEN LET r == DecSeq(t.cands, w, ds, i) IN [v |-> [t EXCEPT !.cands = r.vs], i |-> r.i]
  ELSE IF IsBox(t) THEN LET r == DecSeq(t.items, w, ds, i) IN [v |-> [t EXCEPT !.items = r.vs], i |-> r.i]
  ELSE [v |-> t, i |-> i]
\* derived values are resolved on the decoded value, at the root template only
RECURSIVE HasPath(_,_)
HasPath(v, path) == path = <<>> \/ (IsBox(v) /\ path[1] \in 1..Len(v.items) /\ HasPath(v.items[path[1]], Tail(path)))
RECURSIVE ValueAt(_,_)
ValueAt(v, path) == IF path = <<>> THEN v ELSE ValueAt(v.items[path[1]], Tail(path))
RECURSIVE Resolve(_,_)
Resolve(v, root) ==
  IF v.h = "ref" THEN (IF HasPath(root, v.path) THEN ValueAt(root, v.path) ELSE v)
  ELSE IF IsBox(v) THEN [v EXCEPT !.items = [i \in 1..Len(v.items) |-> Resolve(v.items[i], root)]]
  ELSE v
Decode(t, w, d) == LET v == Dec(t, w, d, 1).v IN Resolve(v, v)

\* ---------------------------------------------------------------- encode (structural merge; first matching candidate)
NoEnc == [ok |-> FALSE, ds |-> <<>>]
RECURSIVE Enc(_,_,_)
RECURSIVE EncSeq(_,_,_)
RECURSIVE FirstMatch(_,_,_,_)
FirstMatch(cands, w, v, i) ==        \* <<index (0-based), DNA of the candidate space>> of the first candidate encoding v
  IF i > Len(cands) THEN NoEnc
  ELSE LET e == Enc(cands[i], w, v) IN IF e.ok THEN [ok |-> TRUE, ds |-> <<i - 1, e.ds>>] ELSE FirstMatch(cands, w, v, i + 1)
EncPrim(t, w, v) ==
  IF t.h = "oneof"
  THEN LET m == FirstMatch(t.cands, w, v, 1) IN IF m.ok THEN [ok |-> TRUE, ds |-> <<<<m.ds>>>>] ELSE NoEnc
  ELSE IF t.h = "manyof"
  THEN IF v.h # "list" THEN NoEnc
       ELSE IF Len(v.items) # t.k THEN NoEnc
       ELSE LET ms == [j \in 1..t.k |-> FirstMatch(t.cands, w, v.items[j], 1)] IN
            IF \A j \in 1..t.k : ms[j].ok THEN [ok |-> TRUE, ds |-> <<[j \in 1..t.k |-> ms[j].ds]>>] ELSE NoEnc
  ELSE IF t.h = "float"
  THEN IF v.h = "fleaf" THEN (IF v.v >= t.lo /\ v.v <= t.hi THEN [ok |-> TRUE, ds |-> <<v.v>>] ELSE NoEnc) ELSE NoEnc
  ELSE IF v.h = "leaf" THEN (IF v.v - 50 \in CustomVals THEN [ok |-> TRUE, ds |-> <<v.v - 50>>] ELSE NoEnc) ELSE NoEnc
EncSeq(ts, w, vs) ==
  IF ts = <<>> THEN [ok |-> TRUE, ds |-> <<>>]
  ELSE LET a == Enc(Head(ts), w, Head(vs)) IN
       IF ~a.ok THEN NoEnc
       ELSE LET r == EncSeq(Tail(ts), w, Tail(vs)) IN IF r.ok THEN [ok |-> TRUE, ds |-> a.ds \o r.ds] ELSE NoEnc
Enc(t, w, v) ==
  IF IsH(t) /\ W(w, t) THEN EncPrim(t, w, v)
  ELSE IF IsChoice(t)
  THEN IF v.h # t.h THEN NoEnc
       ELSE IF Len(v.cands) # Len(t.cands) THEN NoEnc
       ELSE IF t.h = "manyof" /\ <<v.k, v.distinct, v.sorted>> # <<t.k, t.distinct, t.sorted>> THEN NoEnc
       ELSE EncSeq(t.cands, w, v.cands)
  ELSE IF IsBox(t)
  THEN IF v.h # t.h THEN NoEnc
       ELSE IF Len(v.items) # Len(t.items) THEN NoEnc
       ELSE IF t.h = "obj" /\ v.c # t.c THEN NoEnc              \* exactly the same class, not a subclass
       ELSE IF t.h = "tobj" /\ v.fs # t.fs THEN NoEnc
       ELSE EncSeq(t.items, w, v.items)
  ELSE IF t.h = "ref" THEN [ok |-> TRUE, ds |-> <<>>]           \* judged at the root: RefsConsistent
  ELSE IF t = v THEN [ok |-> TRUE, ds |-> <<>>] ELSE NoEnc
\* positions of the derived values of a template (reachable through containers) with their targets
RECURSIVE RefPos(_,_)
RefPos(t, at) == IF t.h = "ref" THEN {<<at, t.path>>}
                 ELSE IF IsBox(t) THEN UNION { RefPos(t.items[i], Append(at, i)) : i \in 1..Len(t.items) }
                 ELSE {}
RefsConsistent(t, v) == \A r \in RefPos(t, <<>>) :
                          HasPath(v, r[1]) /\ HasPath(v, r[2]) /\ ValueAt(v, r[1]) = ValueAt(v, r[2])
Encode(t, w, v) == LET e == Enc(t, w, v) IN IF e.ok /\ RefsConsistent(t, v) THEN e ELSE NoEnc

\* ---------------------------------------------------------------- predicates of the property
RECURSIVE Placeholders(_)
Placeholders(v) ==
  IF IsH(v) THEN {v} \cup (IF IsChoice(v) THEN UNION { Placeholders(v.cands[i]) : i \in 1..Len(v.cands) } ELSE {})
  ELSE IF IsBox(v) THEN UNION { Placeholders(v.items[i]) : i \in 1..Len(v.items) }
  ELSE {}
\* after decoding, only placeholders the filter rejected may remain
OnlyFilteredLeft(w, v) == \A p \in Placeholders(v) : ~W(w, p)
Deterministic(v) == Placeholders(v) = {}

\* ---------------------------------------------------------------- placeholders bound to value specs
InBounds(fs, x) == (fs.lo = NONE \/ x >= fs.lo) /\ (fs.hi = NONE \/ x <= fs.hi)
\* does the field's value spec accept this (placeholder free) value?
AcceptsV(fs, v) ==
  IF fs.k = "float" THEN v.h = "fleaf" /\ InBounds(fs, v.v)
  ELSE IF fs.k = "int" THEN v.h = "leaf" /\ InBounds(fs, v.v)
  ELSE IF fs.k = "enum" THEN v.h = "leaf" /\ v.v \in {fs.lo, fs.hi}
  ELSE IF fs.k = "intlist" THEN v.h = "list" /\ \A i \in 1..Len(v.items) : v.items[i].h = "leaf" /\ InBounds(fs, v.items[i].v)
  ELSE TRUE
\* may this template be bound to the field?  (what binding must check: every value the placeholder can
\* produce is acceptable -- the range of a Float lies inside the spec's range, INCLUDING a bound of exactly 0,
\* every candidate of a choice is acceptable)
RECURSIVE BindOK(_,_)
BindOK(fs, t) ==
  IF t.h = "float" THEN fs.k = "float" /\ (fs.lo = NONE \/ t.lo >= fs.lo) /\ (fs.hi = NONE \/ t.hi <= fs.hi)
  ELSE IF t.h = "oneof" THEN fs.k # "intlist" /\ \A i \in 1..Len(t.cands) : BindOK(fs, t.cands[i])
  ELSE IF t.h = "manyof" THEN fs.k = "intlist" /\ \A i \in 1..Len(t.cands) : BindOK(FS("int", fs.lo, fs.hi), t.cands[i])
  ELSE IF t.h = "custom" THEN TRUE
  ELSE AcceptsV(fs, t)
RECURSIVE WellTyped(_)
WellTyped(t) ==
  IF t.h = "tobj" THEN \A i \in 1..Len(t.items) : BindOK(t.fs[i], t.items[i]) /\ WellTyped(t.items[i])
  ELSE IF IsBox(t) THEN \A i \in 1..Len(t.items) : WellTyped(t.items[i])
  ELSE IF IsChoice(t) THEN \A i \in 1..Len(t.cands) : WellTyped(t.cands[i])
  ELSE TRUE
\* every typed field of a value holds something its spec accepts (a placeholder the filter left is still bound)
RECURSIVE TypedFieldsOK(_)
TypedFieldsOK(v) ==
  IF v.h = "tobj" THEN \A i \in 1..Len(v.items) :
                         /\ TypedFieldsOK(v.items[i])
                         /\ (IF Placeholders(v.items[i]) = {} THEN AcceptsV(v.fs[i], v.items[i]) ELSE BindOK(v.fs[i], v.items[i]))
  ELSE IF IsBox(v) THEN \A i \in 1..Len(v.items) : TypedFieldsOK(v.items[i])
  ELSE IF IsChoice(v) THEN \A i \in 1..Len(v.cands) : TypedFieldsOK(v.cands[i])
  ELSE TRUE

\* "candidates are distinguishable": wherever a choice is made, a value produced by a later candidate is never
\* claimed by an earlier one (encode takes the first candidate that matches)
DecodedSet(t, w) == { Decode(t, w, d) : d \in Valid(TemplateSpec(t, w)) }
RECURSIVE Distinguishable(_,_)
Distinguishable(t, w) ==
  IF IsChoice(t)
  THEN /\ \A i \in 1..Len(t.cands) : Distinguishable(t.cands[i], w)
       /\ W(w, t) => \A i, j \in 1..Len(t.cands) : i < j =>
                        \A v \in DecodedSet(t.cands[j], w) : ~Enc(t.cands[i], w, v).ok
  ELSE IF IsBox(t) THEN \A i \in 1..Len(t.items) : Distinguishable(t.items[i], w)
  ELSE TRUE

\* ---------------------------------------------------------------- universe of templates
L1 == Leaf(1)
L2 == Leaf(2)
L3 == Leaf(3)
Leafs == {L1, L2, L3}
O12 == OneOf(<<L1, L2>>)
O123 == OneOf(<<L1, L2, L3>>)
O11 == OneOf(<<L1, L1>>)                                   \* indistinguishable candidates
CandT == Leafs \cup {DictT(<<L1>>), ListT(<<L1, L2>>)}
MModes == { m \in BOOLEAN \X BOOLEAN : TRUE }
Prim1 == { OneOf(c) : c \in [1..2 -> {L1, L2, DictT(<<L1>>)}] } \cup {O123}
         \cup { ManyOf(2, <<L1, L2, L3>>, m[1], m[2]) : m \in MModes }
         \cup { ManyOf(2, <<L1, L2>>, FALSE, m[2]) : m \in MModes }
         \cup { FloatT(0, 10), CustomT }
Prim2 == { OneOf(<<O12, L3>>), OneOf(<<L3, DictT(<<O12>>)>>), OneOf(<<O12, OneOf(<<L3, Leaf(4)>>)>>),
           OneOf(<<ListT(<<O12, O12>>), L1>>), OneOf(<<FloatT(0, 10), L1>>), OneOf(<<L1, CustomT>>),
           OneOf(<<O12, L1>>),                                \* a nested candidate overlapping a later one
           ManyOf(2, <<O12, L3, Leaf(4)>>, TRUE, FALSE), ManyOf(2, <<DictT(<<O12>>), L3>>, FALSE, TRUE),
           ManyOf(2, <<L3, O12, Leaf(4)>>, TRUE, TRUE),
           OneOf(<<ManyOf(2, <<L1, L2, L3>>, TRUE, FALSE), L1>>) }
PrimSmall == {O12, O123, ManyOf(2, <<L1, L2, L3>>, TRUE, FALSE), ManyOf(2, <<L1, L2>>, FALSE, TRUE), FloatT(0, 10), CustomT,
              OneOf(<<O12, L3>>), ManyOf(2, <<O12, L3, Leaf(4)>>, TRUE, FALSE), O11}
Boxes1(P) == { DictT(<<p>>) : p \in P } \cup { ListT(<<p, L3>>) : p \in P } \cup { ObjT(<<p>>) : p \in P }
             \cup { DictT(<<L1, ListT(<<p>>)>>) : p \in P }
Boxes2(P, Q) == { DictT(<<p, q>>) : p \in P, q \in Q } \cup { ObjT(<<p, q>>) : p \in P, q \in Q }
                \cup { ListT(<<DictT(<<p>>), q>>) : p \in P, q \in Q }
Boxes3(P) == { DictT(<<p, ListT(<<q, L1>>), ObjT(<<r>>)>>) : p \in P, q \in P, r \in P }

\* objects of a base class and of its subclass with equal contents as candidates (distinguishable: different classes)
ClassCands == { OneOf(<<ObjT(<<L1>>), SubT(<<L1>>)>>), OneOf(<<SubT(<<L1>>), ObjT(<<L1>>)>>),
                OneOf(<<ObjT(<<L1>>), SubT(<<L1>>), ObjT(<<L2>>)>>),
                ManyOf(2, <<ObjT(<<O12>>), SubT(<<O12>>), L3>>, TRUE, FALSE),
                ManyOf(2, <<SubT(<<L1, L2>>), ObjT(<<L1, L2>>)>>, FALSE, FALSE),
                DictT(<<OneOf(<<ObjT(<<L1>>), SubT(<<L1>>)>>), SubT(<<O12>>)>>) }
\* candidates one of which is a strict prefix / sub-structure of a later (or earlier) one: still distinguishable,
\* because a container matches only a container of the same length
PrefixCands == { OneOf(<<ListT(<<L1, L2>>), ListT(<<L1, L2, L3>>), ListT(<<Leaf(4)>>)>>),
                 OneOf(<<ListT(<<L1, L2, L3>>), ListT(<<L1, L2>>)>>),
                 ManyOf(2, <<ListT(<<L1>>), ListT(<<L1, L2>>), ListT(<<L3>>)>>, TRUE, FALSE),
                 DictT(<<OneOf(<<ListT(<<O12>>), ListT(<<O12, L3>>)>>), L1>>),
                 OneOf(<<DictT(<<L1>>), DictT(<<L1, L2>>)>>),
                 OneOf(<<ListT(<<>>), ListT(<<L1>>)>>),
                 ObjT(<<OneOf(<<ListT(<<L1>>), ListT(<<L1, ListT(<<L2>>)>>)>>)>>) }
\* derived values (references to a sibling / to an item of the parent) and placeholder-free templates
RefFills == {O12, L1, ManyOf(2, <<L1, L2, L3>>, TRUE, FALSE), OneOf(<<DictT(<<L1>>), L2>>), ListT(<<L1, L2>>), FloatT(0, 10)}
WithRefs == { DictT(<<p, Ref(<<1>>)>>) : p \in RefFills }
            \cup { DictT(<<p, ListT(<<Ref(<<1>>), L3>>)>>) : p \in RefFills }
            \cup { ObjT(<<p, Ref(<<1>>)>>) : p \in {O12, L1} }
            \cup { DictT(<<DictT(<<L1, ListT(<<L1, L2>>)>>), ListT(<<Ref(<<1, 2>>), L3>>)>>),
                   DictT(<<DictT(<<O12, L2>>), ObjT(<<Ref(<<1, 1>>), Ref(<<1>>)>>)>>) }
Constants == { L1, DictT(<<L1, L2>>), ListT(<<L1, DictT(<<L2>>)>>), ObjT(<<L1>>), SubT(<<L1, L2>>) }

\* typed objects: fields Float[0, 1], Float[0.5, ...), Float(..., 0], Int[1, 2], Int[0, ...), Enum{1, 3}, List(Int >= 1)
F_01 == FS("float", 0, 10)
F_min5 == FS("float", 5, NONE)
F_max0 == FS("float", NONE, 0)
F_any == FS("float", NONE, NONE)
I_12 == FS("int", 1, 2)
I_min0 == FS("int", 0, NONE)
E_13 == FS("enum", 1, 3)
IL_1 == FS("intlist", 1, NONE)
FloatSpecs == {F_01, F_min5, F_max0, F_any}
FloatFills == { FloatT(0, 10), FloatT(-5, 5), FloatT(5, 10), FloatT(-10, 0), FloatT(3, 7), FloatT(0, 15), FloatT(-1, 0),
                OneOf(<<FLeaf(5), FloatT(0, 10)>>), OneOf(<<FLeaf(-5), FLeaf(10)>>), OneOf(<<FloatT(-5, 0), FLeaf(0)>>),
                FLeaf(0), FLeaf(-1) }
IntFills == { O12, O123, OneOf(<<Leaf(0), O12>>), OneOf(<<L1, OneOf(<<L2, Leaf(-1)>>)>>), L1, Leaf(0), OneOf(<<L1, L3>>),
              FloatT(0, 10) }
ListFills == { ManyOf(2, <<L1, L2, L3>>, TRUE, FALSE), ManyOf(2, <<Leaf(0), L1>>, FALSE, TRUE), ManyOf(2, <<L1, O12>>, FALSE, FALSE), O12 }
TypedAll == { TObj(<<f>>, <<p>>) : f \in FloatSpecs, p \in FloatFills }
            \cup { TObj(<<f>>, <<p>>) : f \in {I_12, I_min0, E_13}, p \in IntFills }
            \cup { TObj(<<IL_1>>, <<p>>) : p \in ListFills }
            \cup { TObj(<<F_01, I_12>>, <<p, q>>) : p \in {FloatT(0, 10), FloatT(-5, 5), FLeaf(5)}, q \in {O12, O123} }
            \cup { DictT(<<TObj(<<F_01>>, <<p>>), O12>>) : p \in {FloatT(0, 10), FloatT(-1, 10)} }
TypedGood == { t \in TypedAll : WellTyped(t) }
TypedBad == { t \in TypedAll : ~WellTyped(t) }          \* binding must refuse these

WheresFor(t) == {"all"} \cup (IF \E p \in Placeholders(t) : p.h # "oneof" THEN {"oneof"} ELSE {})
                        \cup (IF \E p \in Placeholders(t) : ~IsChoice(p) THEN {"choices"} ELSE {})
                        \cup (IF \E p \in Placeholders(t) : IsChoice(p) /\ Len(p.cands) = 3 THEN {"many3"} ELSE {})
CONSTANTS HyperUniverse        \* set of <<template, where>>
WithWheres(T) == { <<t, w>> : t \in T, w \in {"all", "oneof", "choices", "many3"} }
OkPair(p) == /\ p[2] \in WheresFor(p[1])
             /\ WellFormed(TemplateSpec(p[1], p[2]))
             /\ LET z == Size(TemplateSpec(p[1], p[2])) IN
                IF z = INF THEN Cardinality(Valid(TemplateSpec(p[1], p[2]))) <= 4 * MaxSize ELSE z <= MaxSize
H_one == { <<O12, "all">> }
H_tiny == { p \in WithWheres(Prim1 \cup Boxes1({O12, FloatT(0, 10)}) \cup TypedGood \cup ClassCands \cup WithRefs \cup Constants \cup PrefixCands)
            : OkPair(p) }
H_quick == { p \in WithWheres(Prim1 \cup Prim2 \cup {O11} \cup Boxes1(Prim1 \cup Prim2 \cup {O11}) \cup Boxes2(PrimSmall, PrimSmall)
                            \cup TypedGood \cup ClassCands \cup WithRefs \cup Constants \cup PrefixCands)
             : OkPair(p) }
H_thorough == { p \in WithWheres(Prim1 \cup Prim2 \cup {O11} \cup Boxes1(Prim1 \cup Prim2 \cup {O11})
                                 \cup Boxes2(Prim1 \cup Prim2, PrimSmall) \cup Boxes3(PrimSmall \ {O11}) \cup TypedGood
                                 \cup ClassCands \cup WithRefs \cup Constants \cup PrefixCands)
                : OkPair(p) }

\* ---------------------------------------------------------------- behaviours: the odometer over the template's space
VARIABLES tmpl, wh
hvars == <<tmpl, wh, spec, cur, prev, visited, done>>

HInit == /\ \E p \in HyperUniverse : tmpl = p[1] /\ wh = p[2]
         /\ spec = TemplateSpec(tmpl, wh)
         /\ prev = NoDNA
         /\ IF Finite(spec) THEN cur = FirstSp(spec) /\ done = FALSE
            ELSE cur \in Valid(spec) /\ done = TRUE           \* float / custom: every representative DNA, no stepping
         /\ visited = {cur}
HNext == Step /\ UNCHANGED <<tmpl, wh>>
HSpec == HInit /\ [][HNext]_hvars

Val == Decode(tmpl, wh, cur)
Re == Encode(tmpl, wh, Val)

RECURSIVE HasRef(_)
HasRef(v) == v.h = "ref" \/ (IsBox(v) /\ \E i \in 1..Len(v.items) : HasRef(v.items[i]))
                         \/ (IsChoice(v) /\ \E i \in 1..Len(v.cands) : HasRef(v.cands[i]))
NoPlaceholderLeft == OnlyFilteredLeft(wh, Val) /\ (wh = "all" => Deterministic(Val)) /\ ~HasRef(Val)
\* every decoded value is accepted by the value specs its placeholders were bound to
TypedOK == TypedFieldsOK(Val)
ShapeOK == Re.ok                                         \* the decoded value merges structurally with the template
InverseLaw == Distinguishable(tmpl, wh) => Re.ok /\ Re.ds = cur
\* values of a whole iteration are pairwise different, and as many as the space is large
PairwiseDifferent == (done /\ Finite(spec) /\ Distinguishable(tmpl, wh)) =>
                        Cardinality({ Decode(tmpl, wh, d) : d \in visited }) = Size(spec)
HExact == (done /\ Finite(spec)) => visited = Valid(spec) /\ Cardinality(visited) = Size(spec)
=============================================================================
