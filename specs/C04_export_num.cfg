INIT Init
NEXT Next
CONSTANT U = "num"
