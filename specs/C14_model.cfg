\* C14 design level: every expression of depth <= 1 on every population of <= 3 individuals (ids 1..3)
SPECIFICATION Spec
CONSTANTS
  Ids = {1, 2, 3}
  MaxPop = 3
  Depth = 1
  SimK = 0
INVARIANT MembersOnly
INVARIANT Count
INVARIANT DetUnique
INVARIANT Laws
