SPECIFICATION Spec
CONSTANTS
  Threads = {1, 2, 3}
  Deep = 1
  MaxDepth = 1
  ShallowDepth = 1
  Fams <- OnlyGlobalCore
  Mirror = FALSE
VIEW noact
INVARIANT NestingRule
INVARIANT ViewIsProjection
INVARIANT TimeitOK
INVARIANT Narrowing
INVARIANT QuiescentIsDefault
PROPERTY Restores
PROPERTY Isolation
PROPERTY RefusedIsNoop
PROPERTY InnerFaultIsNoop
