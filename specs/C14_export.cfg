INIT Init
NEXT Next
