------------------------------- MODULE Patch -------------------------------
(***************************************************************************)
(* Traversal-driven bulk update of a symbolic tree (spec growth, G04):     *)
(*   pg.patching.patch_on_key / _path / _value / _type / _member,          *)
(*   Symbolic.rebind(callable), get_rebind_dict,                           *)
(*   pg.traverse, pg.query, Symbolic.sym_descendants.                      *)
(*                                                                         *)
(* 1. VALUES by grammar: int / str / None leaves, pg.List, pg.Dict (items  *)
(*    in insertion order), objects of A(a) and B(a, x1).  A LOCATION is a  *)
(*    key path (sequence of keys); LocSet(t) is the set of locations of t, *)
(*    DocBefore / PostBefore the pre- and post-order on them, stated on    *)
(*    key positions (no walk involved).                                    *)
(* 2. PATH STRINGS and a small REGEX engine (char, any, star, concat) with *)
(*    the meaning of Python's re.match (anchored at the start only), so    *)
(*    that `regex on key` / `regex on path` are evaluated on the rendering *)
(*    KeyPath.__str__ produces ('a.b', 'x1[0]', '[1].a').                  *)
(* 3. PREDICATES (Holds) - the conditions of the five patch_on_* calls,    *)
(*    path equality, query's (path_regex, where) - and VALUE FUNCTIONS     *)
(*    (constant leaf, constant fresh container, int -> int + 1 else the    *)
(*    SAME value).                                                         *)
(* 4. Every operation is defined TWICE:                                    *)
(*      ...Op  - the walk the code performs (traverse with ENTER /         *)
(*               CONTINUE / STOP, the rebind dict applied entry by entry,  *)
(*               the recursive sym_descendants), and                       *)
(*      ...Ref - the documented meaning as a set comprehension over        *)
(*               locations (the changed locations that have no changed     *)
(*               ancestor; the selected locations with / without selected  *)
(*               ancestors; ALL / IMMEDIATE = outermost / LEAF = innermost *)
(*               matches), ordered by DocBefore.                           *)
(*    TLC checks Op = Ref on every tree of the universe and on every tree  *)
(*    a patch produces from one, plus the laws that relate the operations  *)
(*    to each other (section 8).                                           *)
(* 5. A state machine: `tree` is the object; Apply(f, api, mode) performs  *)
(*    patch_on_* / rebind IN PLACE the way the code does; the action       *)
(*    property RebindExact states the law: the value function is applied   *)
(*    at EXACTLY Sel(tree, f), nothing else changes, the nodes outside the *)
(*    replaced subtrees keep their identity, ValueError / KeyError leave   *)
(*    the tree alone, every container above a patched location is notified *)
(*    once (or nobody when notification is skipped).                       *)
(* Variant = "ref" is the intended walk; "deep" (descends into replaced    *)
(* values), "first" (stops at the first match) and "enter" (also descends  *)
(* into the OLD value of a replaced node) are plausible-wrong walks that   *)
(* TLC must refute (negative controls).                                    *)
(*                                                                         *)
(* Encoding (TLC cannot compare a string with an int): a value is          *)
(* <<tag, payload>>; keys are ints 1 'a', 2 'b', 3 'x1', 100 + i = list    *)
(* index i, 4 'q]' (only in a few extra trees); classes 1 = A(a),          *)
(* 2 = B(a, x1); strings: "str" payload 1 's', 2 't'.                      *)
(***************************************************************************)
EXTENDS Integers, Sequences, FiniteSets, TLC, SequencesExt, Randomization

CONSTANTS Tier,       \* "tiny" | "quick" | "thorough": size of the universe
          Variant,    \* "ref" | "deep" | "first" | "enter": the walk of get_rebind_dict
          MaxLevel,   \* number of patch / rebind calls per behaviour in the exhaustive runs (0: the laws on the universe only)
          SimK        \* 0: quantify over whole argument sets; k > 0: over k random members (simulation)

VARIABLES tree,       \* the symbolic value (the root object the user holds)
          act,        \* the last call
          out         \* what the last call produced: error class, selected locations, kept identities, notifications ...

vars == <<tree, act, out>>

-----------------------------------------------------------------------------
(* 1. Values and locations *)
Iv(n) == <<"int", n>>
Sv(k) == <<"str", k>>
NONEv == <<"none", 0>>
Lv(s) == <<"list", s>>
Dv(s) == <<"dict", s>>
Ov(c, s) == <<"obj", <<c, s>>>>
MISv == <<"mis", 0>>              \* "no such location"

KA == 1
KB == 2
KX == 3
KQ == 4                             \* the key 'q]': a legitimate dict key whose printed path '[q]]' cannot be parsed back
Idx(i) == 100 + i
IsIdx(k) == k >= 100
CA == 1
CB == 2
Fields(c) == IF c = CA THEN <<KA>> ELSE <<KA, KX>>

Tag(v) == v[1]
IsList(v) == Tag(v) = "list"
IsDict(v) == Tag(v) = "dict"
IsObj(v) == Tag(v) = "obj"
IsCont(v) == Tag(v) \in {"list", "dict", "obj"}
ClassOf(v) == v[2][1]

\* the members of a container as a sequence of <<key, child>> in the container's own (iteration) order
Items(v) ==
  CASE IsList(v) -> [k \in 1..Len(v[2]) |-> <<Idx(k - 1), v[2][k]>>]
    [] IsDict(v) -> v[2]
    [] IsObj(v) -> [k \in 1..Len(v[2][2]) |-> <<Fields(v[2][1])[k], v[2][2][k]>>]
    [] OTHER -> <<>>
NItems(v) == Len(Items(v))
KeyPos(v, key) == LET it == Items(v) IN
                  IF \E k \in 1..Len(it) : it[k][1] = key THEN CHOOSE k \in 1..Len(it) : it[k][1] = key ELSE 0
Child(v, key) == LET k == KeyPos(v, key) IN IF k = 0 THEN MISv ELSE Items(v)[k][2]

RECURSIVE At(_, _)
At(v, p) == IF p = <<>> THEN v ELSE At(Child(v, Head(p)), Tail(p))

RECURSIVE LocSet(_)
\* the locations of a value: the root <<>> and, below a container, key . location of the child
LocSet(v) == {<<>>} \cup UNION {{<<Items(v)[k][1]>> \o q : q \in LocSet(Items(v)[k][2])} : k \in 1..NItems(v)}
ContLocs(v) == {p \in LocSet(v) : IsCont(At(v, p))}

Parent(p) == SubSeq(p, 1, Len(p) - 1)
\* IsPrefix(p, q), IsStrictPrefix(p, q), Last(p) come from SequencesExt
Comparable(p, q) == IsPrefix(p, q) \/ IsPrefix(q, p)
Outermost(S) == {p \in S : \A q \in S : ~IsStrictPrefix(q, p)}
Innermost(S) == {p \in S : \A q \in S : ~IsStrictPrefix(p, q)}
Rel(c, q) == SubSeq(q, Len(c) + 1, Len(q))                       \* q relative to its ancestor c

\* length of the common prefix
RECURSIVE CommonLen(_, _)
CommonLen(p, q) == IF p = <<>> \/ q = <<>> \/ Head(p) # Head(q) THEN 0 ELSE 1 + CommonLen(Tail(p), Tail(q))
\* p lies entirely to the left of q: neither is above the other and p's branch comes first in the common ancestor
LeftOf(t, p, q) ==
  LET n == CommonLen(p, q) IN
  /\ n < Len(p) /\ n < Len(q)
  /\ LET a == At(t, SubSeq(p, 1, n)) IN KeyPos(a, p[n + 1]) < KeyPos(a, q[n + 1])
\* document (pre-) order: ancestors first, then left to right;  post-order: descendants first, then left to right
DocBefore(t, p, q) == IsStrictPrefix(p, q) \/ LeftOf(t, p, q)
PostBefore(t, p, q) == IsStrictPrefix(q, p) \/ LeftOf(t, p, q)
DocSeq(t, S) == SortSeq(SetToSeq(S), LAMBDA p, q : DocBefore(t, p, q))
Rng(s) == {s[k] : k \in 1..Len(s)}

-----------------------------------------------------------------------------
(* 2. Path strings and regular expressions *)
Digits == <<"0", "1", "2", "3", "4", "5", "6", "7", "8", "9">>
KeyChars(k) == CASE k = KA -> <<"a">> [] k = KB -> <<"b">> [] k = KX -> <<"x", "1">> [] k = KQ -> <<"q", "]">>
                 [] OTHER -> <<Digits[k - 100 + 1]>>
Bracketed(k) == IsIdx(k) \/ k = KQ
\* KeyPath.__str__: dict / field keys joined by '.', list indices (and keys with special characters) as '[i]'
RECURSIVE PathCharsFrom(_, _)
PathCharsFrom(p, first) ==
  IF p = <<>> THEN <<>>
  ELSE (IF Bracketed(Head(p)) THEN <<"[">> \o KeyChars(Head(p)) \o <<"]">>
        ELSE (IF first THEN <<>> ELSE <<".">>) \o KeyChars(Head(p)))
       \o PathCharsFrom(Tail(p), FALSE)
PathChars(p) == PathCharsFrom(p, TRUE)

RC(c) == <<"c", c>>
RAny == <<"any">>
RStar(r) == <<"star", r>>
RCat(a, b) == <<"cat", a, b>>
RECURSIVE Ends(_, _, _)
RECURSIVE StarEnds(_, _, _, _)
\* the positions at which a match of r that starts at position i of s can end (+ 1)
Ends(r, s, i) ==
  CASE r[1] = "c" -> IF i <= Len(s) /\ s[i] = r[2] THEN {i + 1} ELSE {}
    [] r[1] = "any" -> IF i <= Len(s) THEN {i + 1} ELSE {}
    [] r[1] = "cat" -> UNION {Ends(r[3], s, j) : j \in Ends(r[2], s, i)}
    [] OTHER -> StarEnds(r[2], s, {i}, Len(s) + 1)
StarEnds(r, s, S, n) ==
  IF n = 0 THEN S
  ELSE LET T == S \cup UNION {Ends(r, s, j) : j \in S} IN IF T = S THEN S ELSE StarEnds(r, s, T, n - 1)
ReMatch(r, s) == Ends(r, s, 1) # {}                               \* re.match: anchored at the start only
ReFull(r, s) == (Len(s) + 1) \in Ends(r, s, 1)                    \* re.fullmatch (not what the code uses)
ReSearch(r, s) == \E i \in 1..(Len(s) + 1) : Ends(r, s, i) # {}   \* re.search    (not what the code uses)

\* the regexes of the families, with their Python source (rendered by the harness from the AST: the source here documents it)
R_ALL == RStar(RAny)                                   \* '.*'    everything, the root path '' included
R_NONE == RCat(RC("z"), RC("z"))                       \* 'zz'    nothing
R_A == RC("a")                                         \* 'a'     a prefix: 'a', 'a.b', 'a[0]'
R_X == RC("x")                                         \* 'x'     a prefix of the key 'x1'
R_DOT == RAny                                          \* '.'     any key / any path but the root
R_ONE == RC("1")                                       \* '1'     list index 1 - and NOT the key 'x1' (anchored)
R_ENDB == RCat(RStar(RAny), RC("b"))                   \* '.*b'   a 'b' somewhere
R_PLUSA == RCat(RAny, RCat(RStar(RAny), RC("a")))      \* '.+a'   an 'a' that is not the first character
R_IDX0 == RCat(RC("["), RC("0"))                       \* '\[0'   below element 0 of a root list
KeyRegexes == <<R_A, R_X, R_DOT, R_NONE, R_ONE>>
PathRegexes == <<R_ALL, R_NONE, R_A, R_X, R_ENDB, R_PLUSA, R_IDX0>>

-----------------------------------------------------------------------------
(* 3. Predicates and value functions *)
IsType(v, T) ==
  CASE T = "int" -> Tag(v) = "int"
    [] T = "str" -> Tag(v) = "str"
    [] T = "dict" -> IsDict(v)
    [] T = "list" -> IsList(v)
    [] T = "A" -> IsObj(v) /\ ClassOf(v) = CA
    [] T = "B" -> IsObj(v) /\ ClassOf(v) = CB
    [] T = "AB" -> IsObj(v)                              \* the tuple (A, B)
    [] T = "sym" -> IsCont(v)                            \* pg.Symbolic
    [] OTHER -> FALSE
\* `where` of pg.query / sym_descendants: a condition on the value (and, two-argument form, on the parent)
Where(w, t, p) ==
  LET v == At(t, p) IN
  CASE w = "any" -> TRUE
    [] w = "eq1" -> v = Iv(1)
    [] w = "int_notA" -> Tag(v) = "int" /\ ~(p # <<>> /\ IsType(At(t, Parent(p)), "A"))     \* lambda v, p: ...
    [] OTHER -> IsType(v, w)
\* a condition on (key path, value, parent): what patch_on_* build, a rebinder tests, a custom selector is
Holds(c, t, p) ==
  LET v == At(t, p) IN
  CASE c[1] = "key" -> p # <<>> /\ ReMatch(c[2], KeyChars(Last(p)))         \* patch_on_key: k and regex.match(str(k.key))
    [] c[1] = "path" -> ReMatch(c[2], PathChars(p))                          \* patch_on_path: regex.match(str(k))
    [] c[1] = "val" -> v = c[2]                                              \* patch_on_value: v == old_value
    [] c[1] = "type" -> IsType(v, c[2])                                      \* patch_on_type: isinstance(v, value_type)
    [] c[1] = "member" -> p # <<>> /\ IsType(At(t, Parent(p)), c[2]) /\ Last(p) = c[3]   \* patch_on_member
    [] c[1] = "patheq" -> p = c[2]                                           \* lambda k, v: k == 'a.b'
    [] c[1] = "rw" -> (c[2] = <<"nore">> \/ ReMatch(c[2], PathChars(p))) /\ Where(c[3], t, p)   \* query(path_regex, where)
    [] c[1] = "true" -> TRUE
    [] OTHER -> FALSE

I1 == Iv(1)
I2 == Iv(2)
I9 == Iv(9)
S1 == Sv(1)
DNEW == Dv(<<<<KA, I1>>>>)                                \* {'a': 1}, a FRESH container at every call
VF_K9 == <<"const", I9>>                                  \* value=9
VF_NONE == <<"const", NONEv>>                             \* neither value nor value_fn given: None
VF_KD == <<"const", DNEW>>                                \* value_fn=lambda v: pg.Dict(a=1)
VF_INC == <<"incint">>                                    \* value_fn=lambda v: v + 1 if isinstance(v, int) else v
VfApply(vf, v) == IF vf[1] = "const" THEN vf[2] ELSE IF Tag(v) = "int" THEN Iv(v[2] + 1) ELSE v
\* "If rebinder returns the same value from input, the value is considered unchanged" (a fresh container is never the same)
VfChanges(vf, v) == IF vf[1] = "const" THEN IsCont(vf[2]) \/ v # vf[2] ELSE Tag(v) = "int"

\* a rebinder f = <<condition, value function>>
NewAt(f, t, p) == IF Holds(f[1], t, p) THEN VfApply(f[2], At(t, p)) ELSE At(t, p)
ChangedAt(f, t, p) == Holds(f[1], t, p) /\ VfChanges(f[2], At(t, p))

-----------------------------------------------------------------------------
(* 4a. The documented meaning, as set comprehensions *)
Changed(t, f) == {p \in LocSet(t) : ChangedAt(f, t, p)}
\* the locations a patch writes: changed, and not inside a value that is replaced as a whole
Sel(t, f) == Outermost(Changed(t, f))
\* the locations the rebinder is asked about
Asked(t, f) == {p \in LocSet(t) : \A q \in Changed(t, f) : ~IsStrictPrefix(q, p)}
Calls(t, f) == DocSeq(t, {p \in Asked(t, f) : Holds(f[1], t, p)})     \* where value_fn is called, in order
RECURSIVE Subst(_, _, _, _)
\* t with f applied at the locations S (no two comparable), seen from location p
Subst(t, f, S, p) ==
  LET v == At(t, p) IN
  IF p \in S THEN NewAt(f, t, p)
  ELSE CASE IsList(v) -> Lv([k \in 1..Len(v[2]) |-> Subst(t, f, S, Append(p, Idx(k - 1)))] \o <<>>)
         [] IsDict(v) -> Dv([k \in 1..Len(v[2]) |-> <<v[2][k][1], Subst(t, f, S, Append(p, v[2][k][1]))>>] \o <<>>)
         [] IsObj(v) -> Ov(ClassOf(v), [k \in 1..Len(v[2][2]) |-> Subst(t, f, S, Append(p, Fields(ClassOf(v))[k]))] \o <<>>)
         [] OTHER -> v
PatchRef(t, f) == Subst(t, f, Sel(t, f), <<>>)
\* containers that are the same Python object before and after: everything not at or below a written location
KeptRef(t, S) == {p \in ContLocs(t) : \A q \in S : ~IsPrefix(q, p)}
\* who is notified (once, with the relative paths of the written locations below it): every container above one
Above(t, S) == {c \in LocSet(t) : \E q \in S : IsStrictPrefix(c, q)}
NotifRef(t, S) == {<<c, {Rel(c, q) : q \in {x \in S : IsStrictPrefix(c, x)}}>> : c \in Above(t, S)}
Notifies(mode) == mode \in {"default", "ctx_off_explicit"}        \* skip_notification: None under the default flag / False
                                                                  \* ("skip": True; "ctx_off": None inside pg.notify_on_change(False))
RebindRef(t, f, raise, mode) ==
  LET S == Sel(t, f) IN
  IF S = {} /\ raise THEN [err |-> "ValueError", tree |-> t, sel |-> <<>>, kept |-> ContLocs(t), notif |-> {}]
  ELSE IF <<>> \in S THEN [err |-> "KeyError", tree |-> t, sel |-> <<<<>>>>, kept |-> ContLocs(t), notif |-> {}]
  ELSE [err |-> "ok", tree |-> PatchRef(t, f), sel |-> DocSeq(t, S), kept |-> KeptRef(t, S),
        notif |-> IF Notifies(mode) THEN NotifRef(t, S) ELSE {}]

\* pg.query: the selected locations, without descending into a selected one unless enter_selected
QueryRef(t, c, enter) ==
  LET M == {p \in LocSet(t) : Holds(c, t, p)} IN DocSeq(t, IF enter THEN M ELSE Outermost(M))
\* sym_descendants: all / the outermost / the innermost matches among the (strict) descendants
DescSet(t, w, opt, self) ==
  LET M == {p \in LocSet(t) : (p # <<>> \/ self) /\ Where(w, t, p)} IN
  CASE opt = "ALL" -> M [] opt = "IMMEDIATE" -> Outermost(M) [] OTHER -> Innermost(M)
DescRef(t, w, opt, self) == DocSeq(t, DescSet(t, w, opt, self))

\* pg.traverse: a visitor is [pc, pa, qc, qa] - the preorder function answers pa where pc holds, the postorder function qa
\* where qc holds, both ENTER elsewhere ("NONE": the function returns None, which means ENTER)
PreAct(vis, t, p) == IF Holds(vis.pc, t, p) THEN vis.pa ELSE "ENTER"
PostAct(vis, t, p) == IF Holds(vis.qc, t, p) THEN vis.qa ELSE "ENTER"
Enters(a) == a \in {"ENTER", "NONE"}
\* the locations reached if nobody says STOP: every ancestor let the walk enter
Reached(t, vis) == {p \in LocSet(t) : \A k \in 0..(Len(p) - 1) : Enters(PreAct(vis, t, SubSeq(p, 1, k)))}
EvAct(vis, t, e) == IF e[1] = "pre" THEN PreAct(vis, t, e[2]) ELSE PostAct(vis, t, e[2])
\* pre(p) precedes post(q) unless q lies entirely to the left of p
EvBefore(t, e1, e2) ==
  CASE e1[1] = "pre" /\ e2[1] = "pre" -> DocBefore(t, e1[2], e2[2])
    [] e1[1] = "post" /\ e2[1] = "post" -> PostBefore(t, e1[2], e2[2])
    [] e1[1] = "pre" /\ e2[1] = "post" -> ~LeftOf(t, e2[2], e1[2])
    [] OTHER -> LeftOf(t, e1[2], e2[2])
\* every event of a walk that enters everything, in call order (depends on the tree only)
AllEvents(t) ==
  SortSeq(SetToSeq({<<"pre", p>> : p \in LocSet(t)} \cup {<<"post", p>> : p \in LocSet(t)}), LAMBDA a, b : EvBefore(t, a, b))
TravRefIn(t, vis, all) ==
  LET R == Reached(t, vis)
      full == SelectSeq(all, LAMBDA e : e[2] \in R)
      stops == {k \in 1..Len(full) : EvAct(vis, t, full[k]) = "STOP"}
  IN IF stops = {} THEN [ev |-> full, ok |-> TRUE]
     ELSE [ev |-> SubSeq(full, 1, CHOOSE k \in stops : \A j \in stops : k <= j), ok |-> FALSE]
TravRef(t, vis) == TravRefIn(t, vis, AllEvents(t))

-----------------------------------------------------------------------------
(* 4b. The walks as the code performs them *)
RECURSIVE TravOp(_, _, _)
\* traverse(x, preorder_visitor_fn, postorder_visitor_fn): events in call order and the returned flag
TravOp(t, vis, p) ==
  LET pa == PreAct(vis, t, p)
      its == Items(At(t, p))
      F[i \in 0..Len(its)] ==
        IF i = 0 THEN [ev |-> <<>>, ok |-> TRUE]
        ELSE IF ~F[i - 1].ok THEN F[i - 1]                          \* `break` after a child returned False
        ELSE LET r == TravOp(t, vis, Append(p, its[i][1])) IN [ev |-> F[i - 1].ev \o r.ev, ok |-> r.ok]
      kids == IF Enters(pa) THEN F[Len(its)] ELSE [ev |-> <<>>, ok |-> TRUE]
  IN [ev |-> <<<<"pre", p>>>> \o kids.ev \o <<<<"post", p>>>>,      \* the postorder function is called in any case
      ok |-> kids.ok /\ pa # "STOP" /\ PostAct(vis, t, p) # "STOP"]
\* the events up to and including the first STOP answer
CutAtStop(t, vis, ev) ==
  LET stops == {k \in 1..Len(ev) : EvAct(vis, t, ev[k]) = "STOP"} IN
  IF stops = {} THEN ev ELSE SubSeq(ev, 1, CHOOSE k \in stops : \A j \in stops : k <= j)
PreOf(ev) == SelectSeq(ev, LAMBDA e : e[1] = "pre")
PathsOf(ev) == [k \in 1..Len(ev) |-> ev[k][2]] \o <<>>          \* of events <<"pre" / "post", path>>
PairPaths(d) == [k \in 1..Len(d) |-> d[k][1]] \o <<>>            \* of rebind-dict entries <<path, new value>>
VisAll == [pc |-> <<"false">>, pa |-> "ENTER", qc |-> <<"false">>, qa |-> "ENTER"]

\* pg.query = a preorder visitor that records and answers CONTINUE (ENTER with enter_selected) where the selector holds
QueryOp(t, c, enter) ==
  LET vis == [pc |-> c, pa |-> IF enter THEN "ENTER" ELSE "CONTINUE", qc |-> <<"false">>, qa |-> "ENTER"]
  IN PathsOf(SelectSeq(PreOf(TravOp(t, vis, <<>>).ev), LAMBDA e : Holds(c, t, e[2])))

RECURSIVE DescOp(_, _, _, _, _)
RECURSIVE DescVisit(_, _, _, _, _, _)
\* sym_descendants called on the node at r: traverse(self, visit)
DescOp(t, w, opt, self, r) == DescVisit(t, w, opt, self, r, r)
DescVisit(t, w, opt, self, r, p) ==
  LET its == Items(At(t, p))
      below == FlattenSeq([k \in 1..Len(its) |-> DescVisit(t, w, opt, self, r, Append(p, its[k][1]))] \o <<>>)
  IN IF ~Where(w, t, p) THEN below                                  \* ENTER
     ELSE IF ~self /\ p = r THEN below                              \* ENTER
     ELSE IF opt = "IMMEDIATE" THEN <<p>>                           \* CONTINUE
     ELSE LET leafs == IF IsCont(At(t, p)) THEN DescOp(t, w, opt, FALSE, p) ELSE <<>> IN
          (IF opt = "ALL" \/ leafs = <<>> THEN <<p>> ELSE <<>>) \o leafs

RECURSIVE RbWalk(_, _, _)
\* get_rebind_dict: ask the rebinder in preorder; a changed value is recorded and NOT entered
RbWalk(t, f, p) ==
  LET its == Items(At(t, p))
      below == FlattenSeq([k \in 1..Len(its) |-> RbWalk(t, f, Append(p, its[k][1]))] \o <<>>)
  IN IF ChangedAt(f, t, p)
     THEN <<<<p, NewAt(f, t, p)>>>> \o (IF Variant = "enter" THEN below ELSE <<>>)
     ELSE below
RebindDict(t, f) == LET w == RbWalk(t, f, <<>>) IN IF Variant = "first" /\ Len(w) > 1 THEN <<w[1]>> ELSE w

\* writing one entry: parent_node._set_item_without_permission_check(key, value)
SetChild(v, key, nv) ==
  LET k == KeyPos(v, key) IN
  CASE IsList(v) -> IF k = 0 THEN Lv(Append(v[2], nv)) ELSE Lv([v[2] EXCEPT ![k] = nv])
    [] IsDict(v) -> IF k = 0 THEN Dv(Append(v[2], <<key, nv>>)) ELSE Dv([v[2] EXCEPT ![k] = <<key, nv>>])
    [] IsObj(v) -> IF k = 0 THEN v ELSE Ov(ClassOf(v), [v[2][2] EXCEPT ![k] = nv])
    [] OTHER -> v
RECURSIVE SetAt(_, _, _)
SetAt(v, p, nv) == IF p = <<>> THEN nv
                   ELSE IF ~IsCont(v) THEN v
                   ELSE IF Len(p) = 1 THEN SetChild(v, p[1], nv)
                   ELSE IF KeyPos(v, Head(p)) = 0 THEN v
                   ELSE SetChild(v, Head(p), SetAt(Child(v, Head(p)), Tail(p), nv))
RECURSIVE ApplyAll(_, _)
ApplyAll(t, pairs) == IF pairs = <<>> THEN t ELSE ApplyAll(SetAt(t, pairs[1][1], pairs[1][2]), Tail(pairs))
RECURSIVE DeepAt(_, _, _, _)
\* the "deep" control: after writing the new value the walk goes on INSIDE it (n bounds the regress)
DeepAt(t, f, p, n) ==
  LET ch == ChangedAt(f, t, p) /\ n > 0
      t1 == IF ch THEN SetAt(t, p, NewAt(f, t, p)) ELSE t
      its == Items(At(t1, p))
      G[i \in 0..Len(its)] == IF i = 0 THEN t1 ELSE DeepAt(G[i - 1], f, Append(p, its[i][1]), IF ch THEN n - 1 ELSE n)
  IN G[Len(its)]

\* sym_rebind(callable) / _conditional_patch, in place
RebindOp(t, f, raise, mode) ==
  LET d == RebindDict(t, f)
      paths == PairPaths(d)
  IN IF d = <<>> /\ raise THEN [err |-> "ValueError", tree |-> t, sel |-> <<>>, kept |-> ContLocs(t), notif |-> {}]
     ELSE IF d # <<>> /\ paths[1] = <<>>                      \* "Root key '$' cannot be used in rebind" (nothing was written yet)
       THEN [err |-> "KeyError", tree |-> t, sel |-> paths, kept |-> ContLocs(t), notif |-> {}]
     ELSE [err |-> "ok",
           tree |-> IF Variant = "deep" THEN DeepAt(t, f, <<>>, 2) ELSE ApplyAll(t, d),
           sel |-> paths,
           kept |-> KeptRef(t, Rng(paths)),
           notif |-> IF Notifies(mode) THEN NotifRef(t, Rng(paths)) ELSE {}]

-----------------------------------------------------------------------------
(* 5. Families *)
KeyConds == [k \in 1..Len(KeyRegexes) |-> <<"key", KeyRegexes[k]>>]
PathConds == [k \in 1..Len(PathRegexes) |-> <<"path", PathRegexes[k]>>]
ValConds == <<<<"val", I1>>, <<"val", S1>>>>
TypeConds == <<<<"type", "int">>, <<"type", "str">>, <<"type", "dict">>, <<"type", "list">>, <<"type", "A">>, <<"type", "AB">>>>
MemberConds == <<<<"member", "A", KA>>, <<"member", "AB", KA>>, <<"member", "B", KX>>, <<"member", "A", KX>>>>
PatchConds == KeyConds \o PathConds \o ValConds \o TypeConds \o MemberConds        \* what patch_on_* can express
LambdaConds == <<<<"patheq", <<KA>>>>, <<"patheq", <<KA, KB>>>>, <<"patheq", <<Idx(0)>>>>, <<"true">>, <<"false">>>>
RebindConds == LambdaConds \o <<KeyConds[1], TypeConds[1], TypeConds[3], ValConds[1], MemberConds[1], PathConds[5]>>
Vfs == <<VF_K9, VF_NONE, VF_KD, VF_INC>>
RebindVfs == <<VF_K9, VF_KD, VF_INC>>
Modes == <<"default", "skip", "ctx_off", "ctx_off_explicit">>
ModeConds == <<KeyConds[1], TypeConds[1], PathConds[5]>>                             \* the conditions the three other modes are run with

Wheres == <<"any", "int", "str", "dict", "sym", "AB">>                               \* sym_descendants(where)
QWheres == <<"any", "int", "dict", "int_notA">>                                      \* query(where)
QRegexes == <<<<"nore">>>> \o PathRegexes
RwConds == FlattenSeq([i \in 1..Len(QRegexes) |-> [j \in 1..Len(QWheres) |-> <<"rw", QRegexes[i], QWheres[j]>>]])
ExtraRw == <<<<"rw", <<"nore">>, "str">>, <<"rw", <<"nore">>, "sym">>, <<"rw", <<"nore">>, "AB">>>>       \* the other `where`s, no regex
Selectors == RwConds \o ExtraRw \o PatchConds                                                    \* (path_regex, where) and custom selectors
Opts == <<"ALL", "IMMEDIATE", "LEAF">>

Vis(pc, pa, qc, qa) == [pc |-> pc, pa |-> pa, qc |-> qc, qa |-> qa]
PreConds == <<TypeConds[3], KeyConds[1], ValConds[1], <<"true">>>>
PreActs == <<"CONTINUE", "STOP", "NONE">>
PostConds == <<ValConds[1], TypeConds[3]>>
PostActs == <<"STOP", "CONTINUE">>
PreHalves == <<<<<<"false">>, "ENTER">>>> \o FlattenSeq([i \in 1..Len(PreConds) |-> [j \in 1..Len(PreActs) |-> <<PreConds[i], PreActs[j]>>]])
PostHalves == <<<<<<"false">>, "ENTER">>>> \o FlattenSeq([i \in 1..Len(PostConds) |-> [j \in 1..Len(PostActs) |-> <<PostConds[i], PostActs[j]>>]])
Visitors == FlattenSeq([i \in 1..Len(PreHalves) |-> [j \in 1..Len(PostHalves) |->
                          Vis(PreHalves[i][1], PreHalves[i][2], PostHalves[j][1], PostHalves[j][2])]])

-----------------------------------------------------------------------------
(* 6. The universe: ALL values with at most MaxSize locations whose root is a container, plus a few deeper ones *)
Leaves == {I1, I2, S1}
DKeys == {KA, KB, KX}
KeySeqs(m) == {ks \in [1..m -> DKeys] : \A i, j \in 1..m : i # j => ks[i] # ks[j]}
RECURSIVE TT(_)
RECURSIVE SS(_)
\* the sequences of values whose sizes add up to n
SS(n) == IF n = 0 THEN {<<>>} ELSE UNION {{<<v>> \o s : v \in TT(k), s \in SS(n - k)} : k \in 1..n}
\* the values with exactly n locations
TT(n) ==
  IF n = 1 THEN Leaves \cup {Dv(<<>>), Lv(<<>>)}
  ELSE LET S == SS(n - 1) IN
       {Lv(s) : s \in S}
       \cup UNION {{Dv([i \in 1..Len(s) |-> <<ks[i], s[i]>>] \o <<>>) : ks \in KeySeqs(Len(s))} : s \in {x \in S : Len(x) <= 3}}
       \cup {Ov(CA, s) : s \in {x \in S : Len(x) = 1}}
       \cup {Ov(CB, s) : s \in {x \in S : Len(x) = 2}}
MaxSize == CASE Tier = "tiny" -> 2 [] Tier = "quick" -> 3 [] OTHER -> 4
D1(k, v) == Dv(<<<<k, v>>>>)
D2(k1, v1, k2, v2) == Dv(<<<<k1, v1>>, <<k2, v2>>>>)
OA(a) == Ov(CA, <<a>>)
OB(a, x) == Ov(CB, <<a, x>>)
\* deeper / wider shapes: nested matches on one branch, list below dict below list, objects in objects
Extras == {D1(KA, D1(KA, D1(KA, I1))),
           D2(KA, D2(KA, I1, KB, S1), KB, D1(KA, I2)),
           D2(KB, Lv(<<I1, S1>>), KA, OA(I1)),
           D2(KX, OB(I1, D1(KX, I1)), KA, I1),
           Lv(<<Lv(<<D1(KB, I1)>>), I1>>),
           Lv(<<D1(KA, Lv(<<I1, I2>>)), OB(OA(I1), S1)>>),
           Lv(<<I1, D2(KB, I1, KA, Lv(<<S1>>))>>),
           OA(OA(OA(I1))),
           OA(D2(KA, I1, KX, Lv(<<I1>>))),
           OB(D1(KA, I1), OB(I1, I2)),
           OB(Lv(<<OA(I1), I1>>), D1(KB, D1(KA, S1))),
           D2(KA, Lv(<<D1(KA, I1), D1(KB, I1)>>), KX, D1(KX, I1)),
           \* a key that is not an identifier
           D1(KQ, I1), D2(KA, I1, KQ, I1), D2(KQ, D1(KA, I1), KB, S1), Lv(<<D1(KQ, I2)>>), OA(D1(KQ, I1)),
           D1(KA, D1(KQ, Lv(<<I1>>)))}
U == SetToSeq({v \in UNION {TT(n) : n \in 1..MaxSize} : IsCont(v)}) \o SetToSeq(Extras)
N == Len(U)

-----------------------------------------------------------------------------
(* 7. The state machine *)
P(S) == IF SimK = 0 \/ S = {} THEN S ELSE RandomSubset(IF SimK <= Cardinality(S) THEN SimK ELSE Cardinality(S), IF act = <<>> THEN {} ELSE S)
OutOf(r) == [err |-> r.err, sel |-> r.sel, kept |-> r.kept, notif |-> r.notif]
NoOut == [err |-> "ok", sel |-> <<>>, kept |-> {}, notif |-> {}]

\* api: "patch" = patch_on_<kind of the condition>(src, ...); "rebind" = src.rebind(fn); "rebind_nr" = ... raise_on_no_change=False
Apply(c, vf, api, mode) ==
  /\ act' = <<"apply", c, vf, api, mode>>
  /\ LET r == RebindOp(tree, <<c, vf>>, api = "rebind", mode) IN tree' = r.tree /\ out' = OutOf(r)

ApiConds(api) == IF api = "patch" THEN Rng(PatchConds) ELSE Rng(RebindConds)
\* The universe is entered in two hops (boot -> chunk c -> tree U[i], i = c mod NChunks) so that the TLC workers share the
\* trees: a worker checks the invariants of the states it generates.
NChunks == 64
Next ==
  CASE act[1] = "boot" -> \E c \in 1..NChunks : c <= N /\ act' = <<"chunk", c>> /\ UNCHANGED <<tree, out>>
    [] act[1] = "chunk" -> \E i \in P({j \in 1..N : j % NChunks = act[2] % NChunks}) :
                            tree' = U[i] /\ act' = <<"init", i>> /\ out' = NoOut
    [] OTHER -> /\ TLCGet("level") < 3 + MaxLevel
                /\ \E api \in P({"patch", "rebind", "rebind_nr"}) :
                     \E c \in P(ApiConds(api)), vf \in P(Rng(Vfs)) :
                       \* exhaustive runs vary the notification mode on the conditions of ModeConds only
                       \E mode \in (IF SimK = 0 /\ c \notin Rng(ModeConds) THEN {"default"} ELSE P(Rng(Modes))) :
                         Apply(c, vf, api, mode)

Init == /\ tree = Lv(<<>>)
        /\ act = <<"boot">>
        /\ out = NoOut
Spec == Init /\ [][Next]_vars
\* the step runs identify states by the tree (every transition is still checked against RebindExact)
TreeView == <<tree, IF act[1] \in {"boot", "chunk"} THEN act ELSE <<>>>>

-----------------------------------------------------------------------------
(* 8. Laws *)
Ix(s) == 1..Len(s)
AllF == {<<c, vf>> : c \in Rng(PatchConds) \cup Rng(RebindConds), vf \in Rng(Vfs)}

\* order: the sort by key positions IS the walk order
OrdersAgree ==
  /\ PathsOf(PreOf(TravOp(tree, VisAll, <<>>).ev)) = DocSeq(tree, LocSet(tree))
  /\ PathsOf(SelectSeq(TravOp(tree, VisAll, <<>>).ev, LAMBDA e : e[1] = "post"))
       = SortSeq(SetToSeq(LocSet(tree)), LAMBDA p, q : PostBefore(tree, p, q))

\* (c) traverse: call order, early stop and returned flag
TraverseLaw ==
  LET all == AllEvents(tree) IN
  \A k \in Ix(Visitors) :
    LET vis == Visitors[k]
        op == TravOp(tree, vis, <<>>)
        ref == TravRefIn(tree, vis, all)
    IN /\ CutAtStop(tree, vis, op.ev) = ref.ev
       /\ op.ok = ref.ok
\* after the first STOP nothing new is visited: what follows are the postorder calls of the nodes that are still open
UnwindLaw == \A k \in Ix(Visitors) :
  LET vis == Visitors[k]
      ev == TravOp(tree, vis, <<>>).ev
      cut == CutAtStop(tree, vis, ev)
      stop == cut[Len(cut)]
      rest == SubSeq(ev, Len(cut) + 1, Len(ev))
      open == {p \in LocSet(tree) : IF stop[1] = "pre" THEN IsPrefix(p, stop[2]) ELSE IsStrictPrefix(p, stop[2])}
  IN Len(cut) < Len(ev) =>
       /\ \A i \in Ix(rest) : rest[i][1] = "post"
       /\ PathsOf(rest) = SortSeq(SetToSeq(open), LAMBDA p, q : IsStrictPrefix(q, p))

\* (c) query = exactly the matching locations, with / without descending into selected nodes
QueryLaw == \A k \in Ix(Selectors), en \in BOOLEAN : QueryOp(tree, Selectors[k], en) = QueryRef(tree, Selectors[k], en)
\* (c) sym_descendants
DescLaw == \A k \in Ix(Wheres), o \in Ix(Opts), self \in BOOLEAN :
             DescOp(tree, Wheres[k], Opts[o], self, <<>>) = DescRef(tree, Wheres[k], Opts[o], self)

\* the three agree on the set (and order) of locations
AgreeLaw ==
  LET all == DocSeq(tree, LocSet(tree)) IN
  /\ QueryOp(tree, <<"rw", R_ALL, "any">>, TRUE) = all                           \* query('.*', enter_selected=True)
  /\ QueryOp(tree, <<"rw", <<"nore">>, "any">>, FALSE) = <<<<>>>>                \* query() selects the root only
  /\ PathsOf(PreOf(TravOp(tree, VisAll, <<>>).ev)) = all
  /\ DescOp(tree, "any", "ALL", TRUE, <<>>) = all
  /\ DescOp(tree, "any", "ALL", FALSE, <<>>) = Tail(all)
  /\ \A k \in Ix(Wheres) :
       LET w == Wheres[k] IN
       /\ QueryOp(tree, <<"rw", <<"nore">>, w>>, TRUE) = DescOp(tree, w, "ALL", TRUE, <<>>)
       /\ QueryOp(tree, <<"rw", <<"nore">>, w>>, FALSE) = DescOp(tree, w, "IMMEDIATE", TRUE, <<>>)
DescRelLaw == \A k \in Ix(Wheres), self \in BOOLEAN :
  LET all == Rng(DescOp(tree, Wheres[k], "ALL", self, <<>>))
      imm == DescOp(tree, Wheres[k], "IMMEDIATE", self, <<>>)
      leaf == DescOp(tree, Wheres[k], "LEAF", self, <<>>)
  IN /\ Rng(leaf) \subseteq all /\ Rng(imm) \subseteq all
     /\ imm = DocSeq(tree, Outermost(all))
     /\ leaf = DocSeq(tree, Innermost(all))
     /\ (all # {} => imm # <<>> /\ leaf # <<>>)

\* (a, b) the rebind dict = the outermost changed locations, in document order, with the new values
WalkLaw == \A f \in AllF :
  LET d == RebindDict(tree, f) IN
  /\ PairPaths(d) = DocSeq(tree, Sel(tree, f))
  /\ \A k \in Ix(d) : d[k][2] = NewAt(f, tree, d[k][1])
\* a patch writes where a query with the same condition selects (for a value function that always changes the value)
PatchIsQuery == \A k \in Ix(PatchConds) :
  PairPaths(RebindDict(tree, <<PatchConds[k], VF_KD>>)) = QueryOp(tree, PatchConds[k], FALSE)
\* the whole call, as coded = as documented
RebindLaw == \A f \in AllF, raise \in BOOLEAN :
  LET op == RebindOp(tree, f, raise, "default")
      ref == RebindRef(tree, f, raise, "default")
  IN op.err = ref.err /\ op.tree = ref.tree /\ op.sel = ref.sel /\ op.kept = ref.kept /\ op.notif = ref.notif
\* a constant patch is idempotent: applied again it finds nothing to change
ConstIdempotent == \A c \in Rng(PatchConds) :
  LET f == <<c, VF_K9>> IN <<>> \notin Sel(tree, f) => Sel(PatchRef(tree, f), f) = {}

\* the action property: exactly the selected locations, nothing else, in place
Below(S) == {p \in LocSet(tree) : \E q \in S : IsPrefix(q, p)}
ShallowSame(x, y) == IF IsCont(x) THEN /\ Tag(x) = Tag(y)
                                       /\ (IsObj(x) => ClassOf(x) = ClassOf(y))
                                       /\ [k \in 1..NItems(x) |-> Items(x)[k][1]] = [k \in 1..NItems(y) |-> Items(y)[k][1]]
                   ELSE x = y
RebindExact ==
  [][act'[1] = "apply" =>
       LET f == <<act'[2], act'[3]>>
           raise == act'[4] = "rebind"
           S == Sel(tree, f)
       IN IF S = {} /\ raise THEN out'.err = "ValueError" /\ tree' = tree
          ELSE IF <<>> \in S THEN out'.err = "KeyError" /\ tree' = tree
          ELSE /\ out'.err = "ok"
               /\ out'.sel = DocSeq(tree, S)
               /\ \A q \in S : At(tree', q) = VfApply(f[2], At(tree, q))                       \* the value function, applied to the OLD value
               /\ \A p \in LocSet(tree) \ Below(S) : ShallowSame(At(tree, p), At(tree', p))   \* nothing else changes
               /\ LocSet(tree') = (LocSet(tree) \ Below(S)) \cup UNION {{q \o r : r \in LocSet(At(tree', q))} : q \in S}
               /\ out'.kept = ContLocs(tree) \ Below(S)                                         \* in place
               /\ (S = {} => tree' = tree)
               /\ out'.notif = (IF Notifies(act'[5]) THEN NotifRef(tree, S) ELSE {})
               /\ \A nt \in out'.notif : nt[1] \in ContLocs(tree') /\ nt[1] \in out'.kept]_vars
=============================================================================
