------------------------------ MODULE GenoViews ------------------------------
(***************************************************************************)
(* C12: which decision point owns which DNA node, decision ids, lookups,   *)
(* and the library operations that hand out DNAs (DnaOps).                 *)
(*                                                                         *)
(* Ids are sequences of tokens (all triples, so that TLC can compare them) *)
(*   <<"loc", i, 0>>   the i-th element of a space (location LOCS[i])      *)
(*   <<"cond", j, n>>  candidate j (0-based) of n  -- ConditionalKey       *)
(*   <<"sub", j, 0>>   j-th sub-choice of a multi-choice                   *)
(* An annotated tree is <<kind, n, kids, <<role, id, x>>>>: the raw DNA    *)
(* node plus the spec node it is bound to:  role "space" | "multi" (x = 1  *)
(* iff sorted) | "choice" (x = sub-choice index or -1) | "float" | "custom"*)
(***************************************************************************)
EXTENDS Geno

Loc(i) == <<"loc", i, 0>>
Cond(j, n) == <<"cond", j, n>>
Sub(j) == <<"sub", j, 0>>

ANode(kind, n, kids, ann) == <<kind, n, kids, ann>>
AAnn(t) == t[4]
RECURSIVE Plain(_)
Plain(t) == Node(t[1], t[2], [i \in 1..Len(t[3]) |-> Plain(t[3][i])])

\* the same collapsing as NormNode; a node that disappears takes its annotation with it
NormA(kind, n, kids, ann) ==
  IF Len(kids) = 1 /\ kids[1][1] = "n"
  THEN IF kind = "n" THEN kids[1]                       \* a dummy (single element) space: the inner binding stays
       ELSE ANode(kind, n, kids[1][3], ann)             \* a choice absorbs the children of its candidate's node
  ELSE IF kind = "n" /\ Len(kids) = 1 THEN kids[1]
  ELSE ANode(kind, n, kids, ann)

\* the intended binding: every node is bound to the decision point (or space) of its own position
RECURSIVE ATreeAt(_,_,_)
ATreeAt(sp, d, id) ==
  IF sp.t = "space"
  THEN NormA("n", 0, [i \in 1..Len(sp.elems) |-> ATreeAt(sp.elems[i], d[i], Append(id, Loc(i)))], <<"space", id, -1>>)
  ELSE IF sp.t = "choices"
  THEN LET n == Len(sp.cands)
           one(i, cid, subidx) ==
             NormA("i", d[i][1], <<ATreeAt(sp.cands[d[i][1]+1], d[i][2], Append(cid, Cond(d[i][1], n)))>>,
                   <<"choice", cid, subidx>>)
       IN IF sp.k = 1 THEN one(1, id, -1)
          ELSE NormA("n", 0, [i \in 1..sp.k |-> one(i, Append(id, Sub(i-1)), i-1)],
                     <<"multi", id, IF sp.sorted THEN 1 ELSE 0>>)
  ELSE IF sp.t = "float" THEN ANode("f", d, <<>>, <<"float", id, -1>>)
  ELSE ANode("s", d, <<>>, <<"custom", id, -1>>)
ATree(sp, d) == ATreeAt(sp, d, <<>>)

AbstractOf(sp, t) == CHOOSE d \in Valid(sp) : Tree(sp, d) = t
IsValidTree(sp, t) == \E d \in Valid(sp) : Tree(sp, d) = t

\* Aligned: the annotated tree the library holds is the intended one for its own raw numbers
Aligned(sp, at) == IsValidTree(sp, Plain(at)) /\ at = ATree(sp, AbstractOf(sp, Plain(at)))

\* ---------------------------------------------------------------- decision points in declaration order
\* mirrors DNASpec.decision_points: sub-choices of a multi-choice are listed individually
RECURSIVE DpsAt(_,_)
DpsAt(sp, id) ==
  IF sp.t = "space"
  THEN FlattenSeq([i \in 1..Len(sp.elems) |-> DpsAt(sp.elems[i], Append(id, Loc(i)))])
  ELSE IF sp.t = "choices"
  THEN LET n == Len(sp.cands)
           one(cid, subidx) ==
             <<[id |-> cid, role |-> "choice", x |-> subidx, name |-> sp.name]>>
             \o FlattenSeq([j \in 1..n |-> DpsAt(sp.cands[j], Append(cid, Cond(j-1, n)))])
       IN IF sp.k = 1 THEN one(id, -1)
          ELSE FlattenSeq([i \in 1..sp.k |-> one(Append(id, Sub(i-1)), i-1)])
  ELSE <<[id |-> id, role |-> sp.t, x |-> -1, name |-> sp.name]>>
Dps(sp) == DpsAt(sp, <<>>)

\* ids of the multi-choice parents, in declaration order
RECURSIVE MultisAt(_,_)
MultisAt(sp, id) ==
  IF sp.t = "space"
  THEN FlattenSeq([i \in 1..Len(sp.elems) |-> MultisAt(sp.elems[i], Append(id, Loc(i)))])
  ELSE IF sp.t = "choices"
  THEN LET n == Len(sp.cands)
           inner(cid) == FlattenSeq([j \in 1..n |-> MultisAt(sp.cands[j], Append(cid, Cond(j-1, n)))])
       IN IF sp.k = 1 THEN inner(id)
          ELSE <<[id |-> id, k |-> sp.k, name |-> sp.name]>> \o FlattenSeq([i \in 1..sp.k |-> inner(Append(id, Sub(i-1)))])
  ELSE <<>>
Multis(sp) == MultisAt(sp, <<>>)

\* the decisions a DNA makes: <<id, raw sub-tree>> for every active decision point, depth first
RECURSIVE DecisionsOf(_)
DecisionsOf(at) ==
  (IF AAnn(at)[1] \in {"choice", "float", "custom"} THEN <<<<AAnn(at)[2], Plain(at)>>>> ELSE <<>>)
  \o FlattenSeq([i \in 1..Len(at[3]) |-> DecisionsOf(at[3][i])])

Inactive == <<"x", 0, <<>>>>
\* what d[decision point] must return: the node answering it, or "inactive"
LookupRef(sp, d) ==
  LET ds == DecisionsOf(ATree(sp, d))
      dps == Dps(sp)
  IN [i \in 1..Len(dps) |->
        IF \E j \in 1..Len(ds) : ds[j][1] = dps[i].id
        THEN ds[CHOOSE j \in 1..Len(ds) : ds[j][1] = dps[i].id][2] ELSE Inactive]

\* ---------------------------------------------------------------- DnaOps: operations handing out DNAs
\* State: the spec, the annotated tree the library holds.  Mirror = TRUE models Swap as it is coded
\* (children exchanged, bound specs travel with them); Mirror = FALSE the intended re-binding.
CONSTANTS OpsUniverse, Mirror, MaxOps, ShareMemo

VARIABLES held, steps, memo    \* `spec` of Geno is the space; `held` the annotated tree the library holds;
                               \* `memo` the lazily built lookup table of that DNA object (decision by id / name)
opvars == <<spec, cur, prev, visited, done, held, steps, memo>>
NoMemo == [has |-> FALSE, tab |-> <<>>]

oInit == /\ spec \in OpsUniverse
         /\ cur = FirstSp(spec) /\ prev = NoDNA /\ visited = {} /\ done = FALSE
         /\ held = ATree(spec, FirstSp(spec))
         /\ steps = 0
         /\ memo = NoMemo

Rebound(at) == ATree(spec, AbstractOf(spec, Plain(at)))

\* iter_dna / next_dna / from_numbers / from_dict / parse / from_json / random_dna / recombination: a new DNA object
\* freshly bound by use_spec (its lookup table is not built yet)
oFresh == /\ \E d \in Valid(spec) : held' = ATree(spec, d)
          /\ memo' = NoMemo
\* d[key] / d.named_decisions: the table is built on first use and kept
oLookup == /\ held' = held
           /\ memo' = IF memo.has THEN memo ELSE [has |-> TRUE, tab |-> DecisionsOf(held)]
\* clone keeps tree and bindings; ShareMemo = TRUE: the clone also inherits the lookup table
oClone == /\ held' = held
          /\ memo' = IF ShareMemo THEN memo ELSE NoMemo
\* mutators.Uniform: clone, then replace a sub-tree of the clone IN PLACE without notification (the tables of the
\* clone are not invalidated -- harmless as long as a clone starts without tables)
oMutate == /\ \E d \in Valid(spec) : held' = ATree(spec, d)
           /\ memo' = IF ShareMemo THEN memo ELSE NoMemo
\* mutators.Swap: two children of a node bound to an unsorted multi-choice are exchanged
RECURSIVE SwapsOf(_)
SwapsOf(at) ==
  LET kids == at[3]
      m == Len(kids)
      here == IF AAnn(at)[1] = "multi" /\ AAnn(at)[3] = 0
              THEN { ANode(at[1], at[2],
                           [x \in 1..m |-> IF x = p[1] THEN kids[p[2]] ELSE IF x = p[2] THEN kids[p[1]] ELSE kids[x]],
                           AAnn(at))
                     : p \in { q \in (1..m) \X (1..m) : q[1] < q[2] } }
              ELSE {}
  IN here \cup UNION { { ANode(at[1], at[2], ReplaceAt(kids, i, s), AAnn(at)) : s \in SwapsOf(kids[i]) } : i \in 1..m }
oSwap == /\ \E s \in SwapsOf(held) : held' = IF Mirror THEN s ELSE Rebound(s)
         /\ memo' = IF ShareMemo THEN memo ELSE NoMemo

oNext == /\ steps < MaxOps
         /\ steps' = steps + 1
         /\ oFresh \/ oLookup \/ oClone \/ oMutate \/ oSwap
         /\ UNCHANGED <<spec, cur, prev, visited, done>>
OpsSpec == oInit /\ [][oNext]_opvars

\* every DNA the library hands out is valid and bound position by position
OpsAligned == Aligned(spec, held)
\* an aligned DNA answers lookups with the decisions of its own raw numbers
OpsLookup == Aligned(spec, held) =>
               DecisionsOf(held) = DecisionsOf(ATree(spec, AbstractOf(spec, Plain(held))))
\* a lookup table, once built, describes the DNA object that holds it
MemoFresh == memo.has => memo.tab = DecisionsOf(held)

U_ops == { Sp(<<M23>>), Sp(<<M22f>>), Sp(<<M23s>>), Sp(<<DeepM>>), Sp(<<O2, M23>>),
           Sp(<<Ch(1, <<Sp(<<M23>>), Const>>, TRUE, FALSE)>>),
           Sp(<<Ch(2, <<Sp(<<M22f>>), Const, Const>>, TRUE, FALSE), O2>>) }

\* ---------------------------------------------------------------- universe for the views: names, literal values
RECURSIVE NamesOf(_)
NamesOf(sp) ==
  IF sp.t = "space" THEN FlattenSeq([i \in 1..Len(sp.elems) |-> NamesOf(sp.elems[i])])
  ELSE IF sp.t = "choices"
  THEN (IF sp.name # 0 THEN <<sp.name>> ELSE <<>>) \o FlattenSeq([i \in 1..Len(sp.cands) |-> NamesOf(sp.cands[i])])
  ELSE IF sp.name # 0 THEN <<sp.name>> ELSE <<>>
UniqueNames(sp) == LET ns == NamesOf(sp) IN Cardinality(Range(ns)) = Len(ns)

O2a == ChN(1, ConstSeq(2), TRUE, FALSE, 1, 1)            \* named, string literals
O3i == ChN(1, ConstSeq(3), TRUE, FALSE, 0, 2)            \* int literals
O2f == ChN(1, ConstSeq(2), TRUE, FALSE, 2, 3)            \* named, float literals
M23n == ChN(2, ConstSeq(3), TRUE, FALSE, 3, 1)           \* named multi-choice, string literals
M23i == ChN(2, ConstSeq(3), TRUE, TRUE, 0, 2)
M22n == ChN(2, ConstSeq(2), FALSE, FALSE, 4, 0)
CondM == Ch(1, <<Sp(<<M23>>), Const>>, TRUE, FALSE)                          \* single choice over a multi-choice
CondN == ChN(1, <<Sp(<<O2a>>), Const, Sp(<<O2, M22f>>)>>, TRUE, FALSE, 0, 1)   \* named decision under a condition
MultiC == Ch(2, <<Sp(<<M22f>>), Const, Sp(<<O2>>)>>, TRUE, FALSE)             \* multi-choice over conditional spaces
MultiS == ChN(2, <<Sp(<<O2>>), Const, Sp(<<O2, O2>>)>>, FALSE, TRUE, 0, 1)
FlA == FlN(0, 10, 3)
Deep3 == Ch(1, <<Const, Sp(<<Deep>>)>>, TRUE, FALSE)                          \* conditional chain of depth 3
Deep3M == Ch(1, <<Const, Sp(<<CondM>>), Sp(<<Deep, O2>>)>>, TRUE, FALSE)       \* ... ending in a multi-choice / a pair
\* two-digit candidate indices: 12 / 11 candidates (the textual 'i/n' forms must carry every digit)
Big12 == Ch(1, ConstSeq(11) \o <<Sp(<<O2>>)>>, TRUE, FALSE)                 \* candidate 11 opens a sub-space
Big12L == ChN(1, ConstSeq(12), TRUE, FALSE, 0, 1)                           \* with string literals
Big11m == Ch(2, ConstSeq(11), TRUE, TRUE)                                   \* sorted pair out of 11
ViewDP == {Big12, Big12L, Big11m, O2, O2a, O3i, O2f, M23, M23n, M23i, M23s, M22f, M22fs, M22n, Deep, DeepM, CondM, CondN, MultiC, MultiS, Deep3, Deep3M}
ViewPair == {O2a, O3i, M23n, M22fs, Deep, CondN, MultiC, M23i, Deep3}
ViewInf == {FlA, Cu, F01, Ch(1, <<Sp(<<F01>>), Const>>, TRUE, FALSE), Ch(2, <<Sp(<<F01>>), Const, Sp(<<Cu>>)>>, TRUE, FALSE)}
OkView(S) == { s \in WF(S) : UniqueNames(s) /\ (Size(s) = INF \/ Size(s) <= MaxSize) }
U_views_quick == OkView(
     { Sp(<<x>>) : x \in ViewDP \cup ViewInf }
  \cup { Sp(<<x, y>>) : x \in ViewPair, y \in ViewPair }
  \cup { Sp(<<x, y>>) : x \in {O2a, M23, FlA}, y \in ViewInf }
  \cup { Sp(<<Big12, O2a>>), Sp(<<O2, Big12L>>) }
  \cup { Sp(<<x, y, z>>) : x \in {O2a, M23}, y \in {O3i, MultiC}, z \in {M22n, Deep, FlA} })
U_views_thorough == OkView(
     U_views_quick
  \cup { Sp(<<x, y>>) : x \in ViewDP, y \in ViewDP \cup ViewInf }
  \cup { Sp(<<x, y, z>>) : x \in ViewPair, y \in {O3i, MultiC, M23n, O2}, z \in {M22n, Deep, FlA, CondM} }
  \cup { Sp(<<Ch(m[1], c, m[2], m[3])>>) : c \in CandSeqs({Const, Sp(<<O2a>>), Sp(<<M23>>), Sp(<<O2, M22fs>>)}, 2..3),
                                           m \in Modes(1..2, 2) })
=============================================================================
