SPECIFICATION SpecFrom
CONSTANTS
  MaxNodes = 3
  Keys = {1}
  Leafs = {101}
  Shapes = {200, 210}
  MaxLen = 2
  Acts = {"dict", "list", "perm", "inplace", "flags", "slice", "rebind"}
  Mirror = FALSE
  MaxLevel = 2
  InitKinds <- IK_DictList
  SimK = 0
