\* C14 design level, thorough: a random sample of 2500 expressions of depth <= 2 on every population of <= 3 individuals
SPECIFICATION Spec
CONSTANTS
  Ids = {1, 2, 3}
  MaxPop = 3
  Depth = 2
  SimK = 2500
INVARIANT MembersOnly
INVARIANT Count
INVARIANT DetUnique
INVARIANT Laws
