SPECIFICATION Spec
CONSTANTS
  MaxNodes = 4
  Leafs = {101}
  MaxLen = 2
  MaxScope = 1
  MaxLevel = 3
  Mirror = FALSE
  Cache = "none"
  InitSet = "chains"
  SimK = 0
CONSTRAINT LevelBound
VIEW view
INVARIANT ResolutionIsAcyclic
