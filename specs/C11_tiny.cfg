SPECIFICATION Spec
CONSTANTS
  IterUniverse <- U_tiny
  MaxSize = 200
INVARIANT Exact
INVARIANT Faithful
INVARIANT FirstIsLeast
INVARIANT Increasing
