SPECIFICATION Spec
CONSTANTS
  U = "quick"
  Kind = "dict"
  InitPartial = FALSE
  Mirror = FALSE
  MaxLevel = 40
  Small = FALSE
  Avoid = FALSE
  SimK = 1
  AccW = FALSE
  Acts = {"dset", "oset", "rebind", "ddel", "batch", "lset", "ldel", "slice", "lins", "inplace", "xslice", "ctor"}
CONSTRAINT LevelBound
INVARIANT Conforms
INVARIANT AltsConform
PROPERTY RejectedWriteNoStore
