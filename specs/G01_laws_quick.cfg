SPECIFICATION Spec
CONSTANTS
  Tier = "quick"
  Mode = "observed"
  SameRule = "intended"
INVARIANT LawsHold
INVARIANT PatchDone
INVARIANT Applicable
