------------------------------ MODULE DiffObs ------------------------------
(* Conformance model of pg.diff (G01): the laws of Diff.tla and the patch machine evaluated on the entries        *)
(* OBSERVED on the real pg.diff for every ordered pair of the universe and every option combination            *)
(* (Mode = "observed" in the cfg; the table is written by pgverif/diffspec.py).                                   *)
EXTENDS Diff

ASSUME \A r \in 1..NRegs : TLCSet(r, 0)

\* the observation was taken on exactly this universe and has the expected shape
ASSUME /\ Obs.n = N
       /\ Len(Obs.cell) = N /\ \A a \in Ix : Len(Obs.cell[a]) = N
       /\ \A a \in Ix, b \in Ix : Len(Obs.cell[a][b]) = Len(Collapses) * Len(Modes) * Len(Forms)
       /\ Len(Obs.eq) = N /\ Len(Obs.pure) = N
       /\ Len(Obs.res) > 0 /\ Len(Obs.vals) > 0
=============================================================================
