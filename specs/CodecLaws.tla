------------------------------ MODULE CodecLaws ------------------------------
(***************************************************************************)
(* C05, conformance of the serialisation half: the round-trip law          *)
(* evaluated BY TLC on the rows observed on the real code                  *)
(*   row = [v, way, ok, back, eq, type, hash, tree]                        *)
(* (way: json = from_json(to_json(v)), json_str = the string form, pickle, *)
(* deepcopy).  A row conforms when the call returned, the projection of    *)
(* the result equals v, and pg.eq / type + schema behaviour / pg.hash /    *)
(* tree well-formedness hold.  Violations are filed under the collision    *)
(* class of the value (Codec.tla: ClassOf) so that the four design         *)
(* collisions are separated from anything else ("plain").                  *)
(***************************************************************************)
EXTENDS CodecUniv, Json, IOUtils, SequencesExt, FiniteSetsExt
Obs == JsonDeserialize(IOEnv.OBS_FILE)
Rows(u) == Obs.rows
\* json / json_str pass allow_partial only when the value is partial; the *_partial ways and load (= pg.save + pg.load)
\* always load with allow_partial=True
JsonWays == {"json", "json_str", "json_partial", "json_str_partial", "load"}
FormOf(way) == IF way \in {"json_str", "json_str_partial", "load"} THEN "str" ELSE "obj"
\* only the JSON ways use the marker scheme; pickle and deepcopy have no collision classes
\* a value that cannot even be constructed with the API is filed under its own collision class, whatever the way
RowClass(r) == IF ~r.built THEN ClassOf(r.v, "obj")
               ELSE IF r.way \in JsonWays THEN ClassOf(r.v, FormOf(r.way)) ELSE "plain"
RowBad(r) == ~(r.ok /\ r.back = r.v /\ r.eq /\ r.type /\ r.hash /\ r.tree)
Clause(r) == IF ~r.ok THEN "raises" ELSE IF r.back # r.v THEN "value" ELSE IF ~r.eq THEN "eq"
             ELSE IF ~r.type THEN "type" ELSE IF ~r.hash THEN r.hashwhy ELSE "tree"
Sample(S) == LET q == SetToSeq(S) IN SubSeq(q, 1, IF Len(q) < 5 THEN Len(q) ELSE 5)
Ways == JsonWays \cup {"pickle", "deepcopy"}
Laws(u) ==
  LET rows == Rows(u)
      n == Len(rows)
  IN /\ PrintT(<<"COVER", {rows[i].v : i \in 1..n} \subseteq ValU(0), Cardinality({rows[i].v : i \in 1..n}), n>>)
     /\ \A w \in Ways :
          LET cases == {i \in 1..n : rows[i].way = w}
              bad == {i \in cases : RowBad(rows[i])}
              kinds == {<<RowClass(rows[i]), Clause(rows[i])>> : i \in bad}
          IN /\ PrintT(<<"LAW", w, Cardinality(cases), Cardinality(bad)>>)
             /\ \A k \in kinds :
                  LET S == {i \in bad : <<RowClass(rows[i]), Clause(rows[i])>> = k}
                  IN PrintT(<<"VIOL", w, k[1], k[2], Cardinality(S), Sample(S)>>)
     \* the collision classes are not vacuous: every row whose value is in a class is reported with it
     /\ PrintT(<<"CLASSES", {RowClass(rows[i]) : i \in 1..n}>>)
ASSUME Laws(0)
VARIABLE x
Init == x = 0
Next == UNCHANGED x
=============================================================================
