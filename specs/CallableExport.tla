--------------------------- MODULE CallableExport ---------------------------
(* Exports the binding table of Callable.tla: every well-formed signature x every call shape, with the    *)
(* outcome of BindV (values 300+i for the i-th positional argument, 400+n for keyword n, 900+p defaults).  *)
EXTENDS Callable, SequencesExt, Json, IOUtils

Pairs(f) == SetToSeq({<<n, f[n]>> : n \in DOMAIN f})
SigSeq == SetToSeq(WFSigs)
CallSeq == SetToSeq(Calls)
\* one table cell: the direct-call outcome, and what a partial construction (cls.partial(..)) must give
Cell(s, c, kbase) ==
  LET b == BindShape(s, c, 300, kbase)
      pe == ConstructOutcome(s, c)
      pb == BoundOf(s, PosVals(c, 300), KwVals(c, kbase))
  IN [err |-> b.err, vals |-> Pairs(b.vals), va |-> b.va, kwx |-> Pairs(b.kwx),
      perr |-> pe,
      prep |-> IF pe = "ok" THEN Pairs(Reported(s, Restrict(pb, Named(s)))) ELSE <<>>,
      pkwx |-> IF pe = "ok" THEN Pairs(Restrict(pb, (DOMAIN pb) \ Named(s))) ELSE <<>>,
      pva |-> IF pe = "ok" THEN VargsOf(s, PosVals(c, 300)) ELSE <<>>]
\* value mode "distinct" (keyword n carries 400+n) and "equal" (300+n, what the positional route would carry)
Row(s) == [k \in 1..Len(CallSeq) |-> [dist |-> Cell(s, CallSeq[k], 400), eqv |-> Cell(s, CallSeq[k], 300)]]
\* every admissible (parameter, spec mode) of a signature with the documented outcome of symbolizing with it
Annot(s) == SetToSeq({<<x[1], x[2], AnnotateOutcome(s, x[1], x[2])>> :
                        x \in {y \in Named(s) \X SpecModes : SpecModeOK(s, y[1], y[2])}})
ASSUME JsonSerialize(IOEnv.OUT_FILE,
         [sigs |-> SigSeq,
          calls |-> [k \in 1..Len(CallSeq) |-> [nargs |-> CallSeq[k].nargs, kw |-> SetToSeq(CallSeq[k].kw)]],
          res |-> [k \in 1..Len(SigSeq) |-> Row(SigSeq[k])],
          annot |-> [k \in 1..Len(SigSeq) |-> Annot(SigSeq[k])]])
=============================================================================
