--------------------------- MODULE CallableExport ---------------------------
(* Exports the binding table of Callable.tla: every well-formed signature x every call shape, with the    *)
(* outcome of BindV (values 300+i for the i-th positional argument, 400+n for keyword n, 900+p defaults).  *)
EXTENDS Callable, SequencesExt, Json, IOUtils

Pairs(f) == SetToSeq({<<n, f[n]>> : n \in DOMAIN f})
SigSeq == SetToSeq(WFSigs)
CallSeq == SetToSeq(Calls)
Row(s) == [k \in 1..Len(CallSeq) |->
             LET b == BindShape(s, CallSeq[k], 300, 400)
             IN [err |-> b.err, vals |-> Pairs(b.vals), va |-> b.va, kwx |-> Pairs(b.kwx)]]
ASSUME JsonSerialize(IOEnv.OUT_FILE,
         [sigs |-> SigSeq,
          calls |-> [k \in 1..Len(CallSeq) |-> [nargs |-> CallSeq[k].nargs, kw |-> SetToSeq(CallSeq[k].kw)]],
          res |-> [k \in 1..Len(SigSeq) |-> Row(SigSeq[k])]])
=============================================================================
