SPECIFICATION Spec
CONSTANTS
  U = "quick"
  Kind = "list2"
  InitPartial = FALSE
  Mirror = FALSE
  MaxLevel = 3
  Small = TRUE
  Avoid = FALSE
  SimK = 0
  AccW = TRUE
  Acts = {"xslice", "slice", "ldel"}
CONSTRAINT LevelBound
VIEW view
INVARIANT Conforms
INVARIANT AltsConform
PROPERTY RejectedWriteNoStore
