INIT Init
NEXT Next
CONSTANTS
  Alphabet = {1, 2, 3, 4, 5, 6, 7, 8, 9}
  MaxStr = 6
  KeyLen = 2
  IntVals <- IV_small
  PathDepth = 3
  AKeys <- AK_thorough
  ADepth = 2
  VKeys <- VK_thorough
  VSmallKeys <- VS_quick
  VDeep = TRUE
  Part = "parse"
