-------------------------- MODULE TypedTreeExport --------------------------
(* Exports the schema of the container of TypedTree.tla so that the replay driver builds the real *)
(* pg.typing value spec / pg.Object class from the very records the specification uses.          *)
EXTENDS TypedTree, Json, IOUtils
ASSUME JsonSerialize(IOEnv.OUT_FILE, [kind |-> Kind, spec |-> RootSpec, listkey |-> LKey, lo |-> Lo, hi |-> Hi, accw |-> AccW,
                                      classes |-> << <<12, BSpec>>, <<11, ASpec>> >>,
                                      tspecs |-> [tdict |-> DTS, tlist0 |-> LSpec, tlist1 |-> ListS(ElemS, 0, Hi)]])
ExpNext == UNCHANGED vars
=============================================================================
