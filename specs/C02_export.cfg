INIT Init
NEXT Next
CONSTANTS
  ListVals = {101, 102, 111}
  MaxListLen = 3
  Bounds <- BoundsQuick
  StepsC <- StepsQuick
  NewVals = {105, 250, 251}
  DKeys = {1, 2, 3, 4}
  DVals = {101, 251, 0}
  MaxDictLen = 2
INVARIANT LenLaw
INVARIANT SliceLaw
INVARIANT DelSliceLaw
INVARIANT SortLaw
INVARIANT DictLaw
INVARIANT RebindLaw
