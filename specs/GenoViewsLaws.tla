---------------------------- MODULE GenoViewsLaws ----------------------------
(***************************************************************************)
(* C12 laws evaluated by TLC on what the harness observed on real DNAs.    *)
(* One record per spec:                                                    *)
(*   dpids   ids of spec.decision_points (tokens), dpid_strs_ok            *)
(*   dnas    per valid DNA: tree; anns <<source, annotated tree>>;         *)
(*           rts <<view, tree rebuilt from the view, rebuilt == d>>;       *)
(*           lookups per decision point <<d[dp], d[dp.id], d[str(id)]>>;   *)
(*           multis <<id, d[multi spec], d[multi id]>>; names <<id, d[name]>>;*)
(*           todict <<id, value>> of to_dict(dna_spec, value, subchoice, inactive)*)
(*   chains  start tree; steps <<op, input tree, annotated result, views of the *)
(*           result, views of the DNA rebuilt from the result's numbers, input untouched, *)
(*           lookups on the result (the input's lookup tables were warmed before the op)>> *)
(***************************************************************************)
EXTENDS GenoViews, Json, IOUtils

Obs == JsonDeserialize(IOEnv.OBS_FILE)

Fail(i, law, op, w) == <<[i |-> i, law |-> law, op |-> op, w |-> w]>>
SeqIf(c, s) == IF c THEN s ELSE <<>>
Bad == <<"!", 0, <<>>>>

\* a conditional chain of depth >= 3: a decision with a single child decision that has children itself
\* (to_numbers(flatten=False) is known to fold such a chain into a list today)
RECURSIVE HasChain3(_)
HasChain3(t) == \/ TKind(t) = "i" /\ Len(TKids(t)) = 1 /\ TKind(TKids(t)[1]) = "i" /\ TKids(TKids(t)[1]) # <<>>
                \/ \E j \in 1..Len(TKids(t)) : HasChain3(TKids(t)[j])
NestedViews == {"numbers_nested", "parse_nested"}

SameOps == {"clone", "deep_clone", "deepcopy", "from_numbers", "parse", "from_dict", "from_json"}

\* f = [d \in Valid(sp) |-> Tree(sp, d)], computed once per spec
AbsOf(f, t) == CHOOSE d \in DOMAIN f : f[d] = t
IsV(f, t) == \E d \in DOMAIN f : f[d] = t
NextTree(sp, f, t) == LET nx == NextSp(sp, AbsOf(f, t)) IN
                      IF nx.ok THEN Tree(sp, nx.d) ELSE Tree(sp, FirstSp(sp))
SwapPlain(sp, f, t) == { Plain(s) : s \in SwapsOf(ATree(sp, AbsOf(f, t))) } \cup {t}

ToDictRef(sp, d) ==
  LET ds == DecisionsOf(ATree(sp, d))
      dps == Dps(sp)
  IN [k \in 1..Len(dps) |->
        <<dps[k].id, IF \E j \in 1..Len(ds) : ds[j][1] = dps[k].id
                     THEN TVal(ds[CHOOSE j \in 1..Len(ds) : ds[j][1] = dps[k].id][2]) ELSE <<"x", 0>>>>]

\* d[multi-choice]: the nodes of its sub-choices, or "inactive"
MultiRef(sp, d, id, k) ==
  LET ds == DecisionsOf(ATree(sp, d))
      sub(j) == IF \E x \in 1..Len(ds) : ds[x][1] = Append(id, Sub(j))
                THEN ds[CHOOSE x \in 1..Len(ds) : ds[x][1] = Append(id, Sub(j))][2] ELSE Inactive
  IN IF \A j \in 0..(k-1) : sub(j) = Inactive THEN <<Inactive>> ELSE [j \in 1..k |-> sub(j-1)]

\* (an id the model does not know -- the harness reads ids off the real spec -- answers Bad, never a TLC error)
NameRef(sp, d, id) ==
  LET ms == Multis(sp)
      dps == Dps(sp)
  IN IF \E m \in 1..Len(ms) : ms[m].id = id
     THEN MultiRef(sp, d, id, ms[CHOOSE m \in 1..Len(ms) : ms[m].id = id].k)
     ELSE IF \E k \in 1..Len(dps) : dps[k].id = id
     THEN <<LookupRef(sp, d)[CHOOSE k \in 1..Len(dps) : dps[k].id = id]>>
     ELSE <<Bad>>
MultiRefById(sp, d, id) ==
  LET ms == Multis(sp) IN
  IF \E m \in 1..Len(ms) : ms[m].id = id
  THEN MultiRef(sp, d, id, ms[CHOOSE m \in 1..Len(ms) : ms[m].id = id].k) ELSE <<Bad>>

\* do the recorded lookups (by decision point / id / id string, multi-choice parents, names) of a DNA whose
\* abstract form is d answer with the decisions of d ?
LookupsOK(sp, d, lk) ==
  LET ref == LookupRef(sp, d) IN
  /\ Len(lk.lookups) = Len(ref)
  /\ \A k \in 1..Len(lk.lookups) : \A c \in 1..3 : lk.lookups[k][c] = ref[k]
  /\ \A j \in 1..Len(lk.multis) : LET r == MultiRefById(sp, d, lk.multis[j][1]) IN lk.multis[j][2] = r /\ lk.multis[j][3] = r
  /\ \A j \in 1..Len(lk.names) :
        \/ lk.names[j][2] = NameRef(sp, d, lk.names[j][1])
        \/ NameRef(sp, d, lk.names[j][1]) = <<Inactive>> /\ lk.names[j][2] = <<Bad>>    \* C12-F2 (own law on fresh DNAs)

DnaLaws(i, sp, f, x) ==
  LET t == x.tree IN
  IF ~IsV(f, t) THEN Fail(i, "harness_tree_not_valid", "bind", t) ELSE
  LET d == AbsOf(f, t)
      at == ATree(sp, d)
      lk == LookupRef(sp, d)
      ms == Multis(sp)
      badann == { j \in 1..Len(x.anns) : x.anns[j][2] # at }
      badrt == { j \in 1..Len(x.rts) : x.rts[j][2] # t \/ ~x.rts[j][3] }
      badlk == { k \in 1..Len(x.lookups) : k > Len(lk) \/ \E c \in 1..3 : x.lookups[k][c] # lk[k] }
      badmu == { j \in 1..Len(x.multis) :
                   LET r == MultiRefById(sp, d, x.multis[j][1])
                   IN x.multis[j][2] # r \/ x.multis[j][3] # r }
      badnm0 == { j \in 1..Len(x.names) : x.names[j][2] # NameRef(sp, d, x.names[j][1]) }
      \* d[name] raising for a decision point that exists but is inactive (documented answer: None)
      badnmI == { j \in badnm0 : NameRef(sp, d, x.names[j][1]) = <<Inactive>> /\ x.names[j][2] = <<Bad>> }
      badnm == badnm0 \ badnmI
  IN FlattenSeq([j \in 1..Len(x.anns) |-> SeqIf(j \in badann, Fail(i, "aligned", x.anns[j][1], <<t, x.anns[j][2]>>))])
  \o FlattenSeq([j \in 1..Len(x.rts) |->
       SeqIf(j \in badrt, Fail(i, IF x.rts[j][1] \in NestedViews /\ HasChain3(t)
                                  THEN "roundtrip_nested_numbers_of_chain3" ELSE "roundtrip",
                               x.rts[j][1], <<t, x.rts[j][2], x.rts[j][3]>>))])
  \o SeqIf(Len(x.lookups) # Len(lk) \/ badlk # {}, Fail(i, "lookup_by_decision_point_or_id", "getitem", <<t, badlk>>))
  \o SeqIf(badmu # {}, Fail(i, "lookup_multi_choice", "getitem", <<t, badmu>>))
  \o SeqIf(badnm # {}, Fail(i, "lookup_by_name", "getitem", <<t, badnm>>))
  \o SeqIf(badnmI # {}, Fail(i, "lookup_by_name_inactive_raises", "getitem", <<t, badnmI>>))
  \o SeqIf(x.todict # ToDictRef(sp, d), Fail(i, "to_dict_decisions", "to_dict", <<t, x.todict>>))
  \o SeqIf(x.todict_id_keys # [k \in 1..Len(Dps(sp)) |-> Dps(sp)[k].id],
           Fail(i, "to_dict_keys", "to_dict", <<t, x.todict_id_keys>>))

StepVerdict(sp, f, st) ==
  LET op == st[1]  in == st[2]  out == st[3]  po == Plain(st[3]) IN
  IF out[1] = "!" THEN (IF op = "parse" /\ HasChain3(in) THEN "op_raised_nested_numbers_of_chain3" ELSE "op_raised")
  ELSE IF ~IsV(f, po) THEN "result_not_valid"
  ELSE IF out # ATree(sp, AbsOf(f, po)) THEN "aligned"
  ELSE IF ~LookupsOK(sp, AbsOf(f, po), st[7]) THEN "lookups_after_operation"
  ELSE IF st[4] # st[5] THEN "views_differ_from_rebuilt"
  ELSE IF ~st[6] THEN "input_modified"
  ELSE IF op \in SameOps /\ po # in THEN "op_result"
  ELSE IF op = "next" /\ po # NextTree(sp, f, in) THEN "op_result"
  ELSE IF op = "swap" /\ po \notin SwapPlain(sp, f, in) THEN "op_result"
  ELSE "ok"

\* only the first failing step of a chain is reported (later steps start from a state the model no longer describes)
ChainLaws(i, sp, f, ch) ==
  LET n == Len(ch.steps)
      v == [j \in 1..n |-> StepVerdict(sp, f, ch.steps[j])]
      bad == { j \in 1..n : v[j] # "ok" }
  IN IF bad = {} THEN <<>>
     ELSE LET j == Min(bad) IN
          Fail(i, v[j], ch.steps[j][1], <<[s \in 1..j |-> ch.steps[s][1]], ch.steps[j][2], ch.steps[j][3]>>)

Failures(i) ==
  LET o == Obs[i]
      sp == o.spec
      dps == Dps(sp)
      f == [d \in Valid(sp) |-> Tree(sp, d)]
  IN SeqIf(o.errs # <<>>, Fail(i, "unexpected_exception", "-", o.errs))
  \o SeqIf(o.dpids # [k \in 1..Len(dps) |-> dps[k].id], Fail(i, "decision_ids", "spec", o.dpids))
  \o SeqIf(~o.dpid_strs_ok, Fail(i, "decision_id_strings", "spec", o.dpids))
  \o FlattenSeq([j \in 1..Len(o.dnas) |-> DnaLaws(i, sp, f, o.dnas[j])])
  \o FlattenSeq([j \in 1..Len(o.chains) |-> ChainLaws(i, sp, f, o.chains[j])])

AllFailures == FlattenSeq([i \in 1..Len(Obs) |-> Failures(i)])

ASSUME /\ JsonSerialize(IOEnv.OUT_FILE, AllFailures)
       /\ PrintT(<<"laws evaluated on", Len(Obs), "specs; failures", Len(AllFailures)>>)
=============================================================================
