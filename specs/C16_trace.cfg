SPECIFICATION TSpec
CONSTANTS
  Workers = {1, 2, 3, 4, 5, 6, 7, 8}
  Configs <- NoConfigs
  MirrorGoc <- EnvMirrorGoc
  MirrorSetup <- EnvMirrorSetup
  MirrorDone <- EnvMirrorDone
  LockCreate = TRUE
  LockComplete = TRUE
  LockAlg = TRUE
  NULL = NULL
CONSTRAINT Track
POSTCONDITION Post
