SPECIFICATION Spec
CONSTANTS
  MaxNodes = 6
  Leafs = {101, 102}
  MaxLen = 3
  MaxScope = 2
  MaxLevel = 40
  Mirror = FALSE
  Cache = "none"
  InitSet = "chains"
  SimK = 1
CONSTRAINT LevelBound
INVARIANT TreeOK
INVARIANT ResolveIsNearestAncestor
INVARIANT ObsIsCurrent
INVARIANT ReadTotal
