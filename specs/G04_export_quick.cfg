INIT Init
NEXT NoNext
CONSTANTS
  Tier = "quick"
  Variant = "ref"
  MaxLevel = 0
  SimK = 0
