SPECIFICATION Spec
CONSTANTS
  Budget = 0
  SpaceSize = 3
  MaxMeas = 1
  Rewards = {2}
  Accs = {}
  Steps = {0}
  Extras = {0}
  MonotoneSteps = TRUE
  Objective = "reward"
  Policy = "neg"
  CtrlAt = {2}
  MetaKeys = {}
  MetaVals = {}
  LinkNames = {}
  Urls = {}
  FinalRule = "last"
  BestRule = "strict"
  LinksRule = "recorded"
  RedoneRule = "noop"
  SimK = 0
INVARIANT TypeOK
INVARIANT IdsDense
INVARIANT SweepOrder
INVARIANT BudgetRespected
INVARIANT OnePending
INVARIANT FinalShape
INVARIANT FinalIsLargestStep
INVARIANT BestIsArgmax
INVARIANT FedIsHistory
INVARIANT CountersMatch
INVARIANT HandlesAreYielded
INVARIANT CtrlTrialsShape
