SPECIFICATION Spec
CONSTANTS
  Tier = "thorough"
  Mode = "design"
  SameRule = "intended"
INVARIANT LawsHold
INVARIANT PatchDone
INVARIANT Applicable
