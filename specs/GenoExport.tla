----------------------------- MODULE GenoExport -----------------------------
(* Exports a universe of specs with the probes (valid trees and one-step corruptions) the harness *)
(* must submit to validate / bind.  No reference verdict leaves TLC: the verdicts are computed by *)
(* GenoLaws on the observed relation.                                                             *)
EXTENDS Geno, Json, IOUtils

CONSTANTS ExportUniverse, NumValid, NumBase, NumCorr

Salt == atoi(IOEnv.SALT)

Entry(s) == [spec |-> s, size |-> Size(s), probes |-> SetToSeq(Probes(s, NumValid, NumBase, NumCorr, Salt))]

ASSUME LET specs == SetToSeq(ExportUniverse) IN
       /\ JsonSerialize(IOEnv.OUT_FILE, [i \in 1..Len(specs) |-> Entry(specs[i])])
       /\ PrintT(<<"exported", Len(specs)>>)
=============================================================================
