SPECIFICATION Spec
CONSTANTS
  U = "quick"
  Kind = "list"
  InitPartial = FALSE
  Mirror = FALSE
  MaxLevel = 4
  Small = TRUE
  Avoid = FALSE
  SimK = 0
  AccW = TRUE
  Acts = {"dset", "oset", "rebind", "ddel", "batch", "lset", "ldel", "slice", "lins", "inplace"}
CONSTRAINT LevelBound
VIEW view
INVARIANT Conforms
INVARIANT AltsConform
PROPERTY RejectedWriteNoStore
