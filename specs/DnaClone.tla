------------------------------ MODULE DnaClone ------------------------------
(***************************************************************************)
(* Cloning of pg.DNA values (C07, the geno/base.py anchor): a DNA carries, *)
(* besides its decision tree, a persistent `metadata` dict and a process-  *)
(* local `userdata` dict, each with a set of keys marked *cloneable*.      *)
(* A clone copies the decisions, the bound spec, and exactly the cloneable *)
(* metadata / userdata entries (and their marks); afterwards the two DNAs  *)
(* are independent: no call on one changes anything observable of another. *)
(*                                                                         *)
(* State: per DNA id its liveness, decisions (an index into a small table  *)
(* of DNAs the driver builds), meta / user : Key -> value (0 = absent) and *)
(* the two mark sets.  `act` is the call, `ret` the id a clone returned.   *)
(***************************************************************************)
EXTENDS Integers, FiniteSets, Sequences, TLC, Randomization

CONSTANTS MaxDna,     \* DNA ids 1..MaxDna
          Keys,       \* metadata / userdata keys (ints, mapped to strings by the driver)
          Vals,       \* values (positive ints)
          NumShapes,  \* decision trees the initial DNAs are drawn from
          MaxLevel, SimK

VARIABLES live, shape, meta, metaC, user, userC, act, ret
vars == <<live, shape, meta, metaC, user, userC, act, ret>>
view == <<live, shape, meta, metaC, user, userC>>
Ids == 1..MaxDna
P(S) == IF SimK = 0 \/ S = {} THEN S ELSE RandomSubset(IF SimK < Cardinality(S) THEN SimK ELSE Cardinality(S), IF act = <<>> THEN {} ELSE S)   \* the variable keeps TLC from folding the choice into a constant

Init ==
  /\ live = [d \in Ids |-> d = 1]
  /\ shape \in [Ids -> 1..NumShapes] /\ \A d \in Ids : d # 1 => shape[d] = 1
  /\ meta = [d \in Ids |-> [k \in Keys |-> 0]]
  /\ metaC = [d \in Ids |-> {}]
  /\ user = [d \in Ids |-> [k \in Keys |-> 0]]
  /\ userC = [d \in Ids |-> {}]
  /\ act = <<"Init">> /\ ret = 0

\* dna.set_metadata(k, v, cloneable=c): a mark, once set, stays (the code only ever adds)
SetMeta(d, k, v, c) ==
  /\ live[d]
  /\ act' = <<"SetMeta", d, k, v, c>> /\ ret' = 0
  /\ meta' = [meta EXCEPT ![d][k] = v]
  /\ metaC' = [metaC EXCEPT ![d] = IF c THEN @ \cup {k} ELSE @]
  /\ UNCHANGED <<live, shape, user, userC>>

SetUser(d, k, v, c) ==
  /\ live[d]
  /\ act' = <<"SetUser", d, k, v, c>> /\ ret' = 0
  /\ user' = [user EXCEPT ![d][k] = v]
  /\ userC' = [userC EXCEPT ![d] = IF c THEN @ \cup {k} ELSE @]
  /\ UNCHANGED <<live, shape, meta, metaC>>

\* d.clone(deep) / copy.copy / copy.deepcopy
Clone(d, deep) ==
  /\ live[d] /\ \E f \in Ids : ~live[f]
  /\ LET f == CHOOSE x \in Ids : ~live[x] /\ \A y \in Ids : ~live[y] => x <= y IN
     /\ act' = <<"Clone", d, deep>> /\ ret' = f
     /\ live' = [live EXCEPT ![f] = TRUE]
     /\ shape' = [shape EXCEPT ![f] = shape[d]]
     /\ meta' = [meta EXCEPT ![f] = [k \in Keys |-> IF k \in metaC[d] THEN meta[d][k] ELSE 0]]
     /\ metaC' = [metaC EXCEPT ![f] = metaC[d]]
     /\ user' = [user EXCEPT ![f] = [k \in Keys |-> IF k \in userC[d] THEN user[d][k] ELSE 0]]
     /\ userC' = [userC EXCEPT ![f] = userC[d]]

\* the user drops a handle
Forget(d) ==
  /\ live[d] /\ d # 1
  /\ act' = <<"Forget", d>> /\ ret' = 0
  /\ live' = [live EXCEPT ![d] = FALSE]
  /\ meta' = [meta EXCEPT ![d] = [k \in Keys |-> 0]] /\ metaC' = [metaC EXCEPT ![d] = {}]
  /\ user' = [user EXCEPT ![d] = [k \in Keys |-> 0]] /\ userC' = [userC EXCEPT ![d] = {}]
  /\ UNCHANGED shape

Next == \E d \in Ids :
          \/ \E k \in P(Keys), v \in P(Vals), c \in P(BOOLEAN) : SetMeta(d, k, v, c) \/ SetUser(d, k, v, c)
          \/ \E dp \in P(BOOLEAN) : Clone(d, dp)
          \/ Forget(d)
Spec == Init /\ [][Next]_vars
LevelBound == TLCGet("level") <= MaxLevel

\* ---- properties
\* Independence: a call changes the observable state of its target only (a clone: of the new DNA only).
Independence ==
  [][\A d \in Ids : (live[d] /\ live'[d] /\ d # act'[2])
        => (meta'[d] = meta[d] /\ metaC'[d] = metaC[d] /\ user'[d] = user[d] /\ userC'[d] = userC[d] /\ shape'[d] = shape[d])]_vars
\* A clone carries exactly the cloneable entries, and cloning is pure.
CloneExact ==
  [][act'[1] = "Clone" =>
       LET d == act'[2]  f == ret' IN
       /\ ~live[f] /\ live'[f]
       /\ shape'[f] = shape[d]
       /\ \A k \in Keys : meta'[f][k] = (IF k \in metaC[d] THEN meta[d][k] ELSE 0)
       /\ \A k \in Keys : user'[f][k] = (IF k \in userC[d] THEN user[d][k] ELSE 0)
       /\ meta'[d] = meta[d] /\ user'[d] = user[d] /\ metaC'[d] = metaC[d] /\ userC'[d] = userC[d]]_vars
=============================================================================
