----------------------------- MODULE HyperExport -----------------------------
(* Exports the C13 universe: <<template, where>> pairs, the template's space and DNAs (raw trees) to decode. *)
EXTENDS Hyper, Json, IOUtils

CONSTANTS NumDnas

Salt == atoi(IOEnv.SALT)

Entry(p, i) ==
  LET sp == TemplateSpec(p[1], p[2])
      vs == SetToSeq(ValidTrees(sp))
      pk == SetToSeq(Pick(Len(vs), NumDnas, Salt))
  IN [index |-> i, tmpl |-> p[1], wh |-> p[2], size |-> Size(sp), dnas |-> [j \in 1..Len(pk) |-> vs[pk[j]]]]

ASSUME LET ps == SetToSeq(HyperUniverse) IN
       /\ JsonSerialize(IOEnv.OUT_FILE, [i \in 1..Len(ps) |-> Entry(ps[i], i)])
       /\ PrintT(<<"exported", Len(ps)>>)
=============================================================================
