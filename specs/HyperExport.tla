----------------------------- MODULE HyperExport -----------------------------
(* Exports the C13 universe: <<template, where>> pairs, the size of the template's space and DNAs (raw trees) to  *)
(* decode; for a filtered pair also DNAs of the UNFILTERED space of the same template (the same hyper value object *)
(* is used with and without the filter); and the typed templates whose binding must be refused (bindok = FALSE). *)
EXTENDS Hyper, Json, IOUtils

CONSTANTS NumDnas

Salt == atoi(IOEnv.SALT)

Sample(sp, n) == LET vs == SetToSeq(ValidTrees(sp))
                     pk == SetToSeq(Pick(Len(vs), n, Salt))
                 IN [j \in 1..Len(pk) |-> vs[pk[j]]]

Entry(p, i) ==
  LET sp == TemplateSpec(p[1], p[2]) IN
  [index |-> i, tmpl |-> p[1], wh |-> p[2], bindok |-> TRUE, size |-> Size(sp), dnas |-> Sample(sp, NumDnas),
   dnas_all |-> IF p[2] = "all" THEN <<>> ELSE Sample(TemplateSpec(p[1], "all"), 3)]
BadEntry(t, i) == [index |-> i, tmpl |-> t, wh |-> "all", bindok |-> FALSE, size |-> 0, dnas |-> <<>>, dnas_all |-> <<>>]

ASSUME LET ps == SetToSeq(HyperUniverse)
           bs == SetToSeq(TypedBad)
       IN /\ JsonSerialize(IOEnv.OUT_FILE, [i \in 1..Len(ps) |-> Entry(ps[i], i)]
                                           \o [i \in 1..Len(bs) |-> BadEntry(bs[i], Len(ps) + i)])
          /\ PrintT(<<"exported", Len(ps), Len(bs)>>)
=============================================================================
