SPECIFICATION Spec
CONSTANTS
  MaxDna = 5
  Keys = {1, 2, 3}
  Vals = {7, 8}
  NumShapes = 3
  MaxLevel = 40
  SimK = 1
CONSTRAINT LevelBound
