SPECIFICATION SpecFrom
CONSTANTS
  MaxNodes = 6
  Keys = {1}
  Leafs = {101}
  Shapes = {200}
  MaxLen = 4
  Acts = {"slice", "inplace", "perm", "rebind"}
  Mirror = FALSE
  MaxLevel = 2
  InitKinds <- IK_List
  SimK = 0
