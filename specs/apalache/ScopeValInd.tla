---------------------------- MODULE ScopeValInd ----------------------------
(***************************************************************************)
(* Growth item G05 (Apalache, inductive): the save / restore mechanism of  *)
(* `thread_local_value_scope` (pyglove/utils/thread_local.py) - the        *)
(* EnterVal / ExitVal actions of Scopes.tla for ONE thread - with the      *)
(* documented nesting rule as an INDUCTIVE invariant, so that the rule is  *)
(* established for behaviours of every length (TLC explores Scopes.tla to  *)
(* MaxDepth only).  The stack height inside one induction step is bounded  *)
(* by Gen(N) (N = 7 in IndInit); the number of steps is not bounded.       *)
(*                                                                         *)
(*   apalache-mc check --init=IndInit --inv=IndInv   --length=1  (step)    *)
(*   apalache-mc check --init=Init    --inv=IndInv   --length=0  (base)    *)
(*   apalache-mc check --init=IndInit --inv=RestoresStep --length=1 (goal) *)
(* negative controls (tools/g05_apalache.sh): NonVacuous is refuted from   *)
(* IndInit (the induction hypothesis admits deep stacks), and the module   *)
(* with ExitVal deleting the key instead of restoring it fails the step.   *)
(*                                                                         *)
(* Binding: EnterVal / ExitVal here are the Scopes.tla actions verbatim    *)
(* (frame field `si` = the flag value saved on entry, -1 = key absent);    *)
(* Scopes.tla is what pgverif/scopes.py replays into the real managers.    *)
(***************************************************************************)
EXTENDS Integers, Sequences, Apalache

Mgrs == {"notify", "typecheck", "origin", "autocall", "partial", "sealed", "accessor"}
Vals == {0, 1, 2}

VARIABLES
  \* @type: Seq({m: Str, a: Int, si: Int});
  prog,
  \* @type: Str -> Int;
  val,
  \* what the view of the flag was when the innermost open frame was entered (history, for Restores)
  \* @type: Seq(Str -> Int);
  seen

Init ==
  /\ prog = <<>>
  /\ val = [m \in Mgrs |-> -1]
  /\ seen = <<>>

EnterVal(m, a) ==
  /\ prog' = Append(prog, [m |-> m, a |-> a, si |-> val[m]])
  /\ val' = [val EXCEPT ![m] = a]
  /\ seen' = Append(seen, val)

ExitVal ==
  /\ Len(prog) > 0
  /\ LET f == prog[Len(prog)] IN val' = [val EXCEPT ![f.m] = f.si]
  /\ prog' = SubSeq(prog, 1, Len(prog) - 1)
  /\ seen' = SubSeq(seen, 1, Len(seen) - 1)

Next == (\E m \in Mgrs, a \in Vals : EnterVal(m, a)) \/ ExitVal

\* v is the value of manager m that the documented rule gives for the frames 1..k of the stack:
\* the argument of the innermost open scope of m, or "absent" (-1: the getter returns the default)
Holds(m, k, v) ==
  IF \A j \in DOMAIN prog : j <= k => prog[j].m /= m
  THEN v = -1
  ELSE \E j \in DOMAIN prog :
         /\ j <= k /\ prog[j].m = m /\ prog[j].a = v
         /\ \A j2 \in DOMAIN prog : (j < j2 /\ j2 <= k) => prog[j2].m /= m

TypeOK ==
  /\ DOMAIN val = Mgrs
  /\ \A m \in Mgrs : val[m] \in Vals \cup {-1}
  /\ \A i \in DOMAIN prog : prog[i].m \in Mgrs /\ prog[i].a \in Vals /\ prog[i].si \in Vals \cup {-1}
  /\ Len(seen) = Len(prog)
  /\ \A i \in DOMAIN seen : DOMAIN seen[i] = Mgrs

\* the mechanism implements the nesting rule
NestingRule == \A m \in Mgrs : Holds(m, Len(prog), val[m])

\* every saved value is what the rule gave just below its frame, and the recorded view agrees with it
SavedOK ==
  \A i \in DOMAIN prog :
    /\ Holds(prog[i].m, i - 1, prog[i].si)
    /\ \A m \in Mgrs : Holds(m, i - 1, seen[i][m])

IndInv == TypeOK /\ NestingRule /\ SavedOK

IndInit ==
  /\ prog = Gen(7)
  /\ seen = Gen(7)   \* Gen bounds nested domains too: the inner functions need all 7 managers
  /\ val = Gen(7)
  /\ IndInv

\* leaving the innermost block gives back exactly the view observed when it was entered
\* the pre/post form, used with --inv as an ACTION invariant (apalache: --inv accepts action operators)
RestoresStep ==
  (Len(prog') = Len(prog) - 1) => (val' = seen[Len(seen)])
\* negative control: must be REFUTED from IndInit at length 0 (IndInit admits stacks of height >= 4
\* with a manager nested inside itself), otherwise the induction step would be vacuous
NonVacuous == ~(Len(prog) >= 4 /\ \E i, j \in DOMAIN prog : i < j /\ prog[i].m = prog[j].m /\ prog[i].a /= prog[j].a)
=============================================================================
