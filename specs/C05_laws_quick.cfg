INIT Init
NEXT Next
CONSTANTS
  Deep = FALSE
