\* C15 thorough simulation: <= 7 proposals, <= 3 in flight
SPECIFICATION Spec
CONSTANTS
  Algs = {"sweep", "random", "dd_sweep", "dd_random", "dd_random2", "regevo", "hill", "hill2", "nsga2", "neat", "sched", "dd_regevo", "dd_hill_auto"}
  D = 3
  N = 7
  W = 3
  L = 10
  MaxAtt = 3
  MaxCrash = 3
  InOrder = FALSE
  PModes = {"propose", "feedback"}
  Mirror = {}
  LookAhead = 1
INVARIANT CountsOK
INVARIANT InflightOK
INVARIANT PopFromHist
INVARIANT DedupMemoryOK
PROPERTY RecoverIsStutter
PROPERTY ContinuesSame
