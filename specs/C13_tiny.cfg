SPECIFICATION HSpec
CONSTANTS
  IterUniverse <- U_tiny
  MaxSize = 40
  HyperUniverse <- H_tiny
INVARIANT NoPlaceholderLeft
INVARIANT ShapeOK
INVARIANT InverseLaw
INVARIANT PairwiseDifferent
INVARIANT HExact
INVARIANT Increasing
INVARIANT TypedOK
