SPECIFICATION Spec
CONSTANTS
  Tier = "thorough"
  Variant = "ref"
  MaxLevel = 1
  SimK = 0
VIEW TreeView
INVARIANT OrdersAgree
INVARIANT AgreeLaw
INVARIANT DescRelLaw
INVARIANT WalkLaw
PROPERTY RebindExact
