---------------------------- MODULE KeyPathLaws ----------------------------
(***************************************************************************)
(* C10, conformance half: the laws of KeyPath.tla evaluated BY TLC on the  *)
(* relations observed on the real pg.KeyPath / pg.utils.flatten /          *)
(* canonicalize / traverse / pg.traverse / pg.query (file IOEnv.OBS_FILE,  *)
(* written by pgverif/keypath.py).  Every law prints                       *)
(*   <<"LAW", name, cases, bad>>      and, per class of violating cases,   *)
(*   <<"VIOL", name, class, count, sample indices>>                        *)
(* The universes are recomputed here from the same constants: what came    *)
(* back must lie inside them and the number of distinct elements is        *)
(* printed (<<"COVER", ...>>; the harness adds the chunks up and compares   *)
(* with the size KeyPathModel.tla reported), so nothing can be skipped.    *)
(***************************************************************************)
EXTENDS KeyPathUniv, Json, IOUtils, SequencesExt, FiniteSetsExt
CONSTANTS Part

Obs == JsonDeserialize(IOEnv.OBS_FILE)

Sample(S) == LET q == SetToSeq(S) IN SubSeq(q, 1, IF Len(q) < 5 THEN Len(q) ELSE 5)
\* report one law: Cases = set of case ids, Bad(c) = violated, Cls(c) = class name of a violating case
Report(name, Cases, Bad(_), Cls(_)) ==
  LET bad == {c \in Cases : Bad(c)}
      classes == {Cls(c) : c \in bad}
  IN /\ PrintT(<<"LAW", name, Cardinality(Cases), Cardinality(bad)>>)
     /\ \A k \in classes : PrintT(<<"VIOL", name, k, Cardinality({c \in bad : Cls(c) = k}), Sample({c \in bad : Cls(c) = k})>>)
Plain(c) == "plain"

\* ------------------------------------------------------------ parse table ---
\* Cells whose meaning the documentation fixes: unbalanced brackets are rejected (ValueError); a string
\* in the image of the printer (optionally followed by the documented trailing '.') means the printed
\* keys.  Everything else (empty keys, 'a[0]b', '[--1]', ...) is a don't-care and only counted.
Determined(s) == \/ ~Balanced(s)
                 \/ LET r == Parse(s) IN
                    r.ok /\ \A i \in 1..Len(r.keys) : (r.keys[i].int \/ r.keys[i].s # <<>>)
                         /\ (Format(r.keys) = s
                             \/ (s # <<>> /\ s[Len(s)] = DOT /\ Format(r.keys) = SubSeq(s, 1, Len(s) - 1)))
ObsParse(e) == [ok |-> e.ok, keys |-> e.keys]
ParseBad(i) == LET e == Obs.parse[i] IN
               Determined(e.s) /\ (ObsParse(e) # Parse(e.s) \/ (~e.ok /\ e.err # "ValueError"))
ParseCls(i) == LET e == Obs.parse[i] IN
               IF ~Balanced(e.s) THEN "unbalanced" ELSE IF e.ok THEN "keys" ELSE "rejected"
ParseDontCareDiff(u) == Cardinality({i \in 1..Len(Obs.parse) : ~Determined(Obs.parse[i].s) /\ ObsParse(Obs.parse[i]) # Parse(Obs.parse[i].s)})
ParseLaws(u) ==
  /\ PrintT(<<"COVER", "parse", {Obs.parse[i].s : i \in 1..Len(Obs.parse)} \subseteq StrU(0), Cardinality({Obs.parse[i].s : i \in 1..Len(Obs.parse)}),
              "determined", Cardinality({i \in 1..Len(Obs.parse) : Determined(Obs.parse[i].s)}),
              "dontcare_diff", ParseDontCareDiff(0)>>)
  /\ Report("parse_table", 1..Len(Obs.parse), ParseBad, ParseCls)

\* ----------------------------------------------------- format/parse round trip ---
RtBad(i) == LET e == Obs.rt[i] IN ~(e.ok /\ e.keys = e.p /\ e.eq)
RtCls(i) == LET e == Obs.rt[i] IN
            IF \E j \in 1..Len(e.p) : e.p[j].int /\ e.p[j].n < 0 THEN "negative_int"
            ELSE IF \E j \in 1..Len(e.p) : e.p[j].int THEN "int"
            ELSE IF \E j \in 1..Len(e.p) : HasSpecial(e.p[j].s) THEN "special_str"
            ELSE "plain_str"
FmtDiff(u) == Cardinality({i \in 1..Len(Obs.rt) : Obs.rt[i].f # Format(Obs.rt[i].p)})
RoundTripLaws(u) ==
  /\ PrintT(<<"COVER", "rt", {Obs.rt[i].p : i \in 1..Len(Obs.rt)} \subseteq PathU(0), Cardinality({Obs.rt[i].p : i \in 1..Len(Obs.rt)}), "format_differs_from_reference", FmtDiff(0)>>)
  /\ Report("parse_format", 1..Len(Obs.rt), RtBad, RtCls)

\* ------------------------------------------------------------------ algebra ---
N(u) == Len(Obs.au)
P(i) == Obs.au[i]
A(u) == Obs.alg
Pairs(u) == (1..N(0)) \X (1..N(0))
Res(ok, keys) == [ok |-> ok, keys |-> keys]
Min2(a, b) == IF a < b THEN a ELSE b
\* two paths that differ, at the first position where they differ, by an int key against a str key that
\* reads like an int ('0' vs 0, '-1' vs -10, ...): the zone where today's rule is not an order
FirstDiff(p, q) == IF \E i \in 1..Min2(Len(p), Len(q)) : p[i] # q[i]
                   THEN CHOOSE i \in 1..Min2(Len(p), Len(q)) : p[i] # q[i] /\ \A j \in 1..(i - 1) : p[j] = q[j]
                   ELSE 0
IntText(p, q) == LET i == FirstDiff(p, q) IN i # 0 /\ p[i].int # q[i].int /\ IntTextKey(p[i]) /\ IntTextKey(q[i])
OrdCls2(c) == IF IntText(P(c[1]), P(c[2])) THEN "int_vs_inttext_str" ELSE "plain"
OrdCls3(c) == IF IntText(P(c[1]), P(c[2])) \/ IntText(P(c[2]), P(c[3])) \/ IntText(P(c[1]), P(c[3]))
              THEN "int_vs_inttext_str" ELSE "plain"
AddBad(c) == LET o == A(0).add[c[1]][c[2]] IN Res(o.ok, o.keys) # Res(TRUE, Concat(P(c[1]), P(c[2])))
AddStrBad(c) == LET o == A(0).addstr[c[1]][c[2]] IN Res(o.ok, o.keys) # Res(TRUE, Concat(P(c[1]), P(c[2])))
SubBad(c) == LET o == A(0).sub[c[1]][c[2]] IN Res(o.ok, o.keys) # Sub(P(c[1]), P(c[2]))
SubStrBad(c) == LET o == A(0).substr[c[1]][c[2]] IN Res(o.ok, o.keys) # Sub(P(c[1]), P(c[2]))
SubAddBad(c) == LET o == A(0).subadd[c[1]][c[2]] IN Res(o.ok, o.keys) # Res(TRUE, P(c[2]))
RelBad(c) == A(0).rel[c[1]][c[2]] # PrefixOf(P(c[2]), P(c[1]))
RelStrBad(c) == A(0).relstr[c[1]][c[2]] # PrefixOf(P(c[2]), P(c[1]))
\* is_relative_to and '-' agree: p - q is defined exactly when p is relative to q
RelSubBad(c) == A(0).rel[c[1]][c[2]] # A(0).sub[c[1]][c[2]].ok
RelAddBad(c) == ~A(0).reladd[c[1]][c[2]]
ParAddBad(c) == P(c[2]) # <<>> /\ LET o == A(0).paradd[c[1]][c[2]] IN
                                  Res(o.ok, o.keys) # Res(TRUE, Concat(P(c[1]), ParentOf(P(c[2])).keys))
ParentBad(i) == LET o == A(0).parent[i] IN Res(o.ok, o.keys) # ParentOf(P(i))
DepthBad(i) == A(0).depth[i] # Len(P(i))
EqBad(c) == A(0).eq[c[1]][c[2]] # (P(c[1]) = P(c[2])) \/ A(0).ne[c[1]][c[2]] = A(0).eq[c[1]][c[2]]
HashBad(c) == A(0).eq[c[1]][c[2]] /\ ~A(0).hasheq[c[1]][c[2]]
OLt(i, j) == A(0).lt[i][j]
IrreflBad(i) == OLt(i, i)
ConverseBad(c) == A(0).gt[c[1]][c[2]] # OLt(c[2], c[1]) \/ A(0).ge[c[1]][c[2]] # A(0).le[c[2]][c[1]]
LeBad(c) == A(0).le[c[1]][c[2]] # (OLt(c[1], c[2]) \/ P(c[1]) = P(c[2]))
TrichoBad(c) == c[1] # c[2] /\ ~OLt(c[1], c[2]) /\ ~OLt(c[2], c[1])
AsymBad(c) == OLt(c[1], c[2]) /\ OLt(c[2], c[1])
PrefixBad(c) == c[1] # c[2] /\ PrefixOf(P(c[1]), P(c[2])) /\ ~OLt(c[1], c[2])
\* cells the documentation fixes: at the first difference two ints compare numerically, two strs as text
RefCellBad(c) == LET i == FirstDiff(P(c[1]), P(c[2])) IN
                 i # 0 /\ P(c[1])[i].int = P(c[2])[i].int /\ OLt(c[1], c[2]) # PathLt(P(c[1]), P(c[2]), "intended")
TransBad(c) == OLt(c[1], c[2]) /\ OLt(c[2], c[3]) /\ ~OLt(c[1], c[3])
Triples(u) == (1..N(0)) \X (1..N(0)) \X (1..N(0))
AlgebraLaws(u) ==
  /\ PrintT(<<"COVER", "algebra", {P(i) : i \in 1..N(0)} = AU(0), N(0)>>)
  /\ Report("add", Pairs(0), AddBad, Plain)
  /\ Report("add_str", Pairs(0), AddStrBad, Plain)
  /\ Report("sub", Pairs(0), SubBad, Plain)
  /\ Report("sub_str", Pairs(0), SubStrBad, Plain)
  /\ Report("sub_of_add", Pairs(0), SubAddBad, Plain)
  /\ Report("is_relative_to", Pairs(0), RelBad, Plain)
  /\ Report("is_relative_to_str", Pairs(0), RelStrBad, Plain)
  /\ Report("relative_iff_subtractable", Pairs(0), RelSubBad, Plain)
  /\ Report("add_is_relative", Pairs(0), RelAddBad, Plain)
  /\ Report("parent_of_add", Pairs(0), ParAddBad, Plain)
  /\ Report("parent", 1..N(0), ParentBad, Plain)
  /\ Report("depth", 1..N(0), DepthBad, Plain)
  /\ Report("eq_ne", Pairs(0), EqBad, Plain)
  /\ Report("hash", Pairs(0), HashBad, Plain)
  /\ Report("lt_irreflexive", 1..N(0), IrreflBad, Plain)
  /\ Report("lt_gt_converse", Pairs(0), ConverseBad, OrdCls2)
  /\ Report("le_is_lt_or_eq", Pairs(0), LeBad, OrdCls2)
  /\ Report("lt_total", Pairs(0), TrichoBad, OrdCls2)
  /\ Report("lt_asymmetric", Pairs(0), AsymBad, OrdCls2)
  /\ Report("lt_prefix_first", Pairs(0), PrefixBad, OrdCls2)
  /\ Report("lt_same_type_keys", Pairs(0), RefCellBad, OrdCls2)
  /\ Report("lt_transitive", Triples(0), TransBad, OrdCls3)

\* ------------------------------------------------- traversal, flatten, lookup ---
NV(u) == Len(Obs.vals)
E(i) == Obs.vals[i]
\* a lookup through a *plain* dict with an int key (class of the known defect of KeyPath._query)
RECURSIVE IntKeyAtDict(_, _)
IntKeyAtDict(v, path) ==
  IF path = <<>> \/ v.t = "leaf" THEN FALSE
  ELSE IF v.t = "dict" /\ path[1].int THEN TRUE
  ELSE LET r == LookupV(v, <<path[1]>>) IN r.ok /\ IntKeyAtDict(r.node, Tail(path))
LogNames == {"utils_traverse_pre", "utils_traverse_post", "pg_traverse_pre", "pg_traverse_post", "pg_query"}
LogCases(u) == {c \in (1..NV(0)) \X LogNames : c[2] \in DOMAIN E(c[1]).logs}
StripLog(log) == [j \in 1..Len(log) |-> [p |-> log[j].p, node |-> log[j].node]]
LogBad(c) == LET log == E(c[1]).logs[c[2]] IN
             ~(VisitLogOK(E(c[1]).v, StripLog(log)) /\ \A j \in 1..Len(log) : log[j].is /\ log[j].rt)
LogCls(c) == LET log == E(c[1]).logs[c[2]] IN
             IF VisitLogOK(E(c[1]).v, StripLog(log)) /\ c[2] \in {"utils_traverse_pre", "utils_traverse_post"}
                /\ \A j \in 1..Len(log) : (log[j].is /\ log[j].rt) \/ IntKeyAtDict(E(c[1]).v, log[j].p)
             THEN "plain_dict_int_key_lookup" ELSE c[2]
FlatRef(i) == Flatten(E(i).v)
FlatBad(i) == LET f == E(i).flat  ref == FlatRef(i) IN
              ~(f.ok /\ Len(f.entries) = Len(ref)
                /\ \A j \in 1..Len(ref) : \E k \in 1..Len(f.entries) :
                     Parse(f.entries[k].k) = [ok |-> TRUE, keys |-> ref[j].p] /\ f.entries[k].node = ref[j].node)
CanonBad(i) == E(i).dom /\ ~(E(i).canon.ok /\ SameValue(E(i).v, E(i).canon.v))
\* the flattened form is a mapping: canonicalize must not depend on the order in which its entries are stored
CanonOrderBad(i) == E(i).dom /\ \E k \in 1..Len(E(i).canonp) : ~(E(i).canonp[k].ok /\ SameValue(E(i).v, E(i).canonp[k].v))
CanonOutside(u) == Cardinality({i \in 1..NV(0) : ~E(i).dom /\ ~(E(i).canon.ok /\ SameValue(E(i).v, E(i).canon.v))})
ProbeCases(u) == {c \in (1..NV(0)) \X {"plain", "sym"} \X (1..40) : c[3] <= Len(E(c[1]).probes)}
ProbeBad(c) == LET pr == E(c[1]).probes[c[3]] IN pr[c[2]] # (IF LookupV(E(c[1]).v, pr.p).ok THEN "T" ELSE "F")
ProbeCls(c) == IF c[2] = "plain" /\ IntKeyAtDict(E(c[1]).v, E(c[1]).probes[c[3]].p)
               THEN "plain_dict_int_key_lookup" ELSE c[2]
ValueLaws(u) ==
  /\ PrintT(<<"COVER", "values", {E(i).v : i \in 1..NV(0)} \subseteq ValU(0), Cardinality({E(i).v : i \in 1..NV(0)}), "domain_ok", \A i \in 1..NV(0) : E(i).dom = InFlattenDomain(E(i).v),
              "canon_outside_domain_differs", CanonOutside(0)>>)
  /\ Report("visit_log", LogCases(0), LogBad, LogCls)
  /\ Report("flatten_paths", 1..NV(0), FlatBad, Plain)
  /\ Report("canonicalize_flatten", 1..NV(0), CanonBad, Plain)
  /\ Report("canonicalize_any_entry_order", 1..NV(0), CanonOrderBad, Plain)
  /\ Report("exists", ProbeCases(0), ProbeBad, ProbeCls)

ASSUME CASE Part = "parse" -> ParseLaws(0)
         [] Part = "rt" -> RoundTripLaws(0)
         [] Part = "algebra" -> AlgebraLaws(0)
         [] Part = "values" -> ValueLaws(0)

VARIABLE x
Init == x = 0
Next == UNCHANGED x
=============================================================================
