SPECIFICATION Spec
CONSTANTS
  Tier = "thorough"
  Canonical = FALSE
  Mode = "design"
INVARIANT LawsHoldOutsideZones
INVARIANT SortTotalOutsideZones
