------------------------------- MODULE Codec -------------------------------
(***************************************************************************)
(* The JSON encoding scheme of PyGlove (property C05, serialisation half): *)
(* pg.to_json / pg.from_json (object form) and pg.to_json_str /            *)
(* pg.from_json_str (string form) as an abstract encoder / decoder over a  *)
(* small alphabet of RESERVED atoms and their near misses:                 *)
(*   - a tuple is a list that starts with the marker string '__tuple__'    *)
(*   - an object is a dict with the key '_type' holding its type name      *)
(*   - in string form an int key n of a dict becomes the str key 'n_:n'    *)
(* Atoms are ints (classes; pgverif/codec.py picks concrete members):      *)
(*  leaves  1 None  2 bool  3 int  4 float  5 nan/inf  6 plain str         *)
(*          7 str with control / non-BMP characters                        *)
(*          10 str '__tuple__'   11 near miss of the marker                *)
(*          12 str 'n_:<int>'    13 str '_type'                            *)
(*          14 MISSING_VALUE: only as the value of an object field (a      *)
(*             PARTIAL object; its JSON omits the field and it can only be *)
(*             loaded with allow_partial=True, which pg.load always uses)  *)
(*          20 opaque convertible (value spec, DNA, DNASpec, function,     *)
(*             class, ... : encodes itself, trusted to its own to_json)    *)
(*          61 62 type names of the classes A B   63 an unknown type name  *)
(*  keys    31 plain str   32 str 'n_:<i>' where i is the int key 41       *)
(*          33 str 'n_:<junk>'   34 near miss of the 'n_:' prefix          *)
(*          35 str '_type'       36 near miss of '_type'                   *)
(*          37 str '__tuple__'   38 control / non-BMP / empty str          *)
(*          39 str 'n_:<j>' where j is the int key 42 (only ever produced  *)
(*             by the encoder)   41 42 int keys   51 52 field names x y    *)
(* Values / JSON trees: [t, a, ks, xs] with t in leaf list tuple dict obj  *)
(* (obj: a = class 1 (A: field x) or 2 (B: fields x, y)), and "err".       *)
(***************************************************************************)
EXTENDS Integers, Sequences, FiniteSets, TLC

MARKER == 10
MISSING == 14
TYPEKEY == 35
Leaf(a) == [t |-> "leaf", a |-> a, ks |-> <<>>, xs |-> <<>>]
ListV(xs) == [t |-> "list", a |-> 0, ks |-> <<>>, xs |-> xs]
TupleV(xs) == [t |-> "tuple", a |-> 0, ks |-> <<>>, xs |-> xs]
DictV(ks, xs) == [t |-> "dict", a |-> 0, ks |-> ks, xs |-> xs]
ObjV(c, xs) == [t |-> "obj", a |-> c, ks |-> IF c = 1 THEN <<51>> ELSE <<51, 52>>, xs |-> xs]
Err == [t |-> "err", a |-> 0, ks |-> <<>>, xs |-> <<>>]
IsErr(v) == v.t = "err"
TypeName(c) == 60 + c
Fields(c) == IF c = 1 THEN <<51>> ELSE <<51, 52>>

\* ---- keys in the two forms --------------------------------------------------
\* "obj": the JSON tree is a Python object, int keys stay ints.  "str": json.dumps needs str keys.
EncKey(k, form) == IF form = "str" THEN (IF k = 41 THEN 32 ELSE IF k = 42 THEN 39 ELSE k) ELSE k
\* from_json_str: a key that starts with 'n_:' is int(rest); int() of junk raises
DecKey(k, form) == IF form = "str" THEN (IF k = 32 THEN 41 ELSE IF k = 39 THEN 42 ELSE IF k = 33 THEN 0 ELSE k) ELSE k
Distinct(ks) == \A i, j \in 1..Len(ks) : i # j => ks[i] # ks[j]

\* ---- encoder / decoder -------------------------------------------------------
RECURSIVE Enc(_, _)
Enc(v, form) ==
  LET kids == [i \in 1..Len(v.xs) |-> Enc(v.xs[i], form)] IN
  CASE v.t = "leaf" -> v
    [] v.t = "list" -> ListV(kids)
    [] v.t = "tuple" -> ListV(<<Leaf(MARKER)>> \o kids)
    [] v.t = "dict" -> DictV([i \in 1..Len(v.ks) |-> EncKey(v.ks[i], form)], kids)
    [] v.t = "obj" ->
         \* fields whose value is MISSING_VALUE are not written
         LET present == SelectSeq([i \in 1..Len(v.ks) |-> i], LAMBDA i : v.xs[i] # Leaf(MISSING)) IN
         DictV(<<TYPEKEY>> \o [j \in 1..Len(present) |-> v.ks[present[j]]],
               <<Leaf(TypeName(v.a))>> \o [j \in 1..Len(present) |-> kids[present[j]]])

IndexOf(ks, k) == CHOOSE i \in 1..Len(ks) : ks[i] = k
RECURSIVE Dec(_, _)
Dec(j, form) ==
  LET kids == [i \in 1..Len(j.xs) |-> Dec(j.xs[i], form)]
      bad == \E i \in 1..Len(j.xs) : IsErr(kids[i])
  IN
  CASE j.t = "leaf" -> j
    [] j.t = "list" ->
         IF Len(j.xs) > 0 /\ j.xs[1] = Leaf(MARKER)
         THEN (IF Len(j.xs) < 2 THEN Err          \* "Tuple should have at least one element"
               ELSE IF bad THEN Err ELSE TupleV(Tail(kids)))
         ELSE IF bad THEN Err ELSE ListV(kids)
    [] j.t = "dict" ->
         LET ks == [i \in 1..Len(j.ks) |-> DecKey(j.ks[i], form)] IN
         IF bad \/ (\E i \in 1..Len(ks) : ks[i] = 0) \/ ~Distinct(ks) THEN Err
         ELSE IF \E i \in 1..Len(ks) : ks[i] = TYPEKEY THEN
           \* a dict with '_type' is an object of the named class (or cannot be loaded)
           LET p == IndexOf(ks, TYPEKEY)
               tn == kids[p]
               rest == [i \in 1..(Len(ks) - 1) |-> IF i < p THEN i ELSE i + 1]
               fks == [i \in 1..(Len(ks) - 1) |-> ks[rest[i]]]
               fxs == [i \in 1..(Len(ks) - 1) |-> kids[rest[i]]]
               \* loading with allow_partial=True: declared fields that are absent come back as MISSING_VALUE
               fill(c) == [i \in 1..Len(Fields(c)) |->
                             IF \E m \in 1..Len(fks) : fks[m] = Fields(c)[i]
                             THEN fxs[CHOOSE m \in 1..Len(fks) : fks[m] = Fields(c)[i]] ELSE Leaf(MISSING)]
           IN IF tn.t = "leaf" /\ tn.a \in {61, 62} /\ \A m \in 1..Len(fks) : \E i \in 1..Len(Fields(tn.a - 60)) : Fields(tn.a - 60)[i] = fks[m]
              THEN ObjV(tn.a - 60, fill(tn.a - 60)) ELSE Err
         ELSE DictV(ks, kids)

RoundTrip(v, form) == Dec(Enc(v, form), form) = v

\* ---- where the scheme is not injective (classes of minimal counter-examples) ----
\* `form` matters: the int-key escape exists only in the string form.
SelfCollides(v, form) ==
  \/ v.t = "list" /\ Len(v.xs) > 0 /\ v.xs[1] = Leaf(MARKER)
  \/ v.t = "tuple" /\ v.xs = <<>>
  \/ v.t = "dict" /\ \E i \in 1..Len(v.ks) : v.ks[i] = TYPEKEY
  \/ v.t = "dict" /\ form = "str" /\ \E i \in 1..Len(v.ks) : v.ks[i] \in {32, 33}
SelfClass(v, form) ==
  IF v.t = "list" /\ Len(v.xs) > 0 /\ v.xs[1] = Leaf(MARKER) THEN "marker_first_list"
  ELSE IF v.t = "tuple" /\ v.xs = <<>> THEN "empty_tuple"
  ELSE IF v.t = "dict" /\ \E i \in 1..Len(v.ks) : v.ks[i] = TYPEKEY THEN "type_str_key"
  ELSE IF v.t = "dict" /\ form = "str" /\ \E i \in 1..Len(v.ks) : v.ks[i] \in {32, 33} THEN "int_prefix_str_key"
  ELSE "none"
RECURSIVE CollisionClasses(_, _)
CollisionClasses(v, form) ==
  (IF SelfCollides(v, form) THEN {SelfClass(v, form)} ELSE {}) \cup UNION {CollisionClasses(v.xs[i], form) : i \in 1..Len(v.xs)}
\* the class under which a violation on v is filed: "plain" when no part of v is in a collision class
ClassOf(v, form) == LET cs == CollisionClasses(v, form) IN
                    IF "type_str_key" \in cs THEN "type_str_key"
                    ELSE IF "int_prefix_str_key" \in cs THEN "int_prefix_str_key"
                    ELSE IF "marker_first_list" \in cs THEN "marker_first_list"
                    ELSE IF "empty_tuple" \in cs THEN "empty_tuple"
                    ELSE "plain"

\* ---- universes --------------------------------------------------------------------
SeqsUpTo(S, n) == UNION {[1..k -> S] : k \in 0..n}
KeySeqs(K, w) == {ks \in SeqsUpTo(K, w) : Distinct(ks)}
Containers(K, w, Below) ==
  {ListV(xs) : xs \in SeqsUpTo(Below, w)} \cup {TupleV(xs) : xs \in SeqsUpTo(Below, w)}
  \cup {DictV(kx[1], kx[2]) : kx \in {p \in KeySeqs(K, w) \X SeqsUpTo(Below, w) : Len(p[1]) = Len(p[2])}}
Objects(BelowX, BelowY) == {ObjV(1, <<x>>) : x \in BelowX} \cup {ObjV(2, <<x, y>>) : x \in BelowX, y \in BelowY}
=============================================================================
