SPECIFICATION Spec
CONSTANTS
  FSKinds = {"std", "mem", "rec"}
  PathIds = {3, 6}
  Vals = {2, 5}
  MaxRecs = 2
  MemPaths = {3, 6}
  Avoid = {}
  Mirror = FALSE
  MaxLevel = 6
  SimK = 0
CONSTRAINT LevelBound
INVARIANT TypeOK
INVARIANT ReadYourWrites
INVARIANT SeqReadYourWrites
INVARIANT WritesSucceed
INVARIANT NoAliasing
