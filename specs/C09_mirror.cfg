SPECIFICATION Spec
CONSTANTS
  MaxNodes = 3
  Keys = {1}
  Leafs = {101, 150}
  Shapes = {200, 221}
  MaxLen = 2
  Acts = {"dict", "list", "rebind", "facts", "nscope", "perm"}
  Mirror = TRUE
  MaxLevel = 4
  InitKinds <- IK_DictList
  SimK = 0
CONSTRAINT LevelBound
VIEW view
INVARIANT Fresh
