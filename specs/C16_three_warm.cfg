SPECIFICATION Spec
CONSTANTS
  Workers = {1, 2, 3}
  Configs <- ThreeWarm
  MirrorGoc = FALSE
  MirrorSetup = FALSE
  MirrorDone = FALSE
  LockCreate = TRUE
  LockComplete = TRUE
  LockAlg = TRUE
  NULL = NULL
INVARIANTS SingleCreator SetupAtomic SingleCompleter OneStudyPerName IdsUnique IdsDense AtMostN OneGroupPerTrial FeedbackAtMostOnce
  CompletedAtMostOnce CountersExact InfeasibleNeverBest SameGroupSamePending CountsConsistent
  NoDeadlock AtQuiescence
PROPERTIES RegistryStable StatusMonotone LatestMonotone
