SPECIFICATION Spec
CONSTANTS
  MaxPos = 1
  KwNames = {1, 11, 21}
  MaxArgs = 2
  MaxKw = 2
  MaxSteps = 2
  AsCoded = TRUE
  SimK = 0
VIEW view
PROPERTY LateBindAgrees
