SPECIFICATION Spec
CONSTANTS
  MaxPos = 1
  KwNames = {1, 11, 21}
  MaxArgs = 2
  MaxKw = 2
  MaxSteps = 2
  MaxRebind = 1
  CtorModeSet = {"distinct"}
  CallModeSet = {"distinct"}
  FlagAtSet = {"init", "call"}
  AsCoded = TRUE
  SimK = 0
VIEW view
PROPERTY LateBindAgrees
