SPECIFICATION Spec
CONSTANTS
  Tier = "thorough"
  Canonical = FALSE
  Mode = "observed"
INVARIANT LawsHold
INVARIANT SortTotal
