------------------------------- MODULE EvoAlg -------------------------------
(***************************************************************************)
(* List semantics of the operator composition algebra of pg.evolution      *)
(* (evolution/base.py: Pipeline >>, Concatenation +, Union |, Intersection *)
(* &, Difference -, SymmetricDifference ^, Repeat *, Power **, Slice [],   *)
(* Inversion ~, Conditional if_true/if_false, ElementWise + Flatten,       *)
(* UntilChange, Identity) over the deterministic selectors First / Last /  *)
(* Top / Bottom and one abstract random selector.                          *)
(*                                                                         *)
(* A population is a sequence of individual ids (object identity; the same *)
(* id may occur twice); `fit` maps ids to their fitness.  An expression is *)
(* a record [op, n, pct, k, lo, hi, st, thr, args] (unused fields 0/<<>>), *)
(* the same shape the harness logs as JSON.  EvalSet(e, in, fit) is the    *)
(* set of admissible outputs (a singleton for deterministic expressions).  *)
(***************************************************************************)
EXTENDS Integers, Sequences, FiniteSets

RangeOf(s) == {s[i] : i \in 1..Len(s)}
FirstK(s, k) == IF k >= Len(s) THEN s ELSE SubSeq(s, 1, k)
LastK(s, k) == IF k >= Len(s) THEN s ELSE SubSeq(s, Len(s) - k + 1, Len(s))
RemoveAt(s, i) == SubSeq(s, 1, i - 1) \o SubSeq(s, i + 1, Len(s))
NoDup(s) == \A i, j \in 1..Len(s) : i # j => s[i] # s[j]

\* documented number of outputs of a selector with parameter n (int), a proportion (pct/100) or None
CountOf(e, len) == IF e.pct > 0 THEN (e.pct * len + 99) \div 100      \* math.ceil(p * len)
                   ELSE IF e.n < 0 THEN len ELSE e.n

RECURSIVE TopK(_, _, _), BottomK(_, _, _), Dedup(_), Times(_, _), EveryNth(_, _)
TopK(s, k, fit) ==        \* sorted(inputs, key=fitness, reverse=True)[:k]  (stable)
  IF k <= 0 \/ s = <<>> THEN <<>>
  ELSE LET p == CHOOSE i \in 1..Len(s) : /\ \A j \in 1..Len(s) : fit[s[j]] <= fit[s[i]]
                                          /\ \A j2 \in 1..(i - 1) : fit[s[j2]] < fit[s[i]]
       IN <<s[p]>> \o TopK(RemoveAt(s, p), k - 1, fit)
BottomK(s, k, fit) ==     \* sorted(inputs, key=fitness)[:k]  (stable)
  IF k <= 0 \/ s = <<>> THEN <<>>
  ELSE LET p == CHOOSE i \in 1..Len(s) : /\ \A j \in 1..Len(s) : fit[s[j]] >= fit[s[i]]
                                          /\ \A j2 \in 1..(i - 1) : fit[s[j2]] > fit[s[i]]
       IN <<s[p]>> \o BottomK(RemoveAt(s, p), k - 1, fit)
Dedup(s) == IF s = <<>> THEN <<>>
            ELSE LET r == Dedup(SubSeq(s, 1, Len(s) - 1)) IN
                 IF s[Len(s)] \in RangeOf(r) THEN r ELSE Append(r, s[Len(s)])
Times(s, k) == IF k <= 0 THEN <<>> ELSE s \o Times(s, k - 1)
EveryNth(s, st) == IF s = <<>> THEN <<>> ELSE <<s[1]>> \o EveryNth(SubSeq(s, st + 1, Len(s)), st)
PySlice(s, lo, hi, st) ==       \* s[lo:hi:st] for 0 <= lo, st >= 1, hi < 0 meaning "to the end"
  LET h == IF hi < 0 \/ hi > Len(s) THEN Len(s) ELSE hi IN
  IF lo >= h THEN <<>> ELSE EveryNth(SubSeq(s, lo + 1, h), st)

\* all ways to pick k distinct positions, in any order (selectors.Random without replacement)
RECURSIVE Picks(_, _)
Picks(s, k) == IF k <= 0 \/ s = <<>> THEN {<<>>}
               ELSE UNION { { <<s[i]>> \o r : r \in Picks(RemoveAt(s, i), k - 1) } : i \in 1..Len(s) }

RECURSIVE IsDet(_)
IsDet(e) == e.op # "anysel" /\ \A i \in 1..Len(e.args) : IsDet(e.args[i])

RECURSIVE EvalSet(_, _, _), PowSet(_, _, _, _), RepSet(_, _, _, _)
EvalSet(e, in, fit) ==
  LET A(i) == EvalSet(e.args[i], in, fit) IN
  CASE e.op = "identity" -> {in}
    [] e.op = "first"    -> {FirstK(in, CountOf(e, Len(in)))}
    [] e.op = "last"     -> {LastK(in, CountOf(e, Len(in)))}
    [] e.op = "top"      -> {TopK(in, CountOf(e, Len(in)), fit)}
    [] e.op = "bottom"   -> {BottomK(in, CountOf(e, Len(in)), fit)}
    [] e.op = "anysel"   -> Picks(in, IF CountOf(e, Len(in)) > Len(in) THEN Len(in) ELSE CountOf(e, Len(in)))
    [] e.op = "pipeline" -> UNION { EvalSet(e.args[2], m, fit) : m \in A(1) }
    [] e.op = "concat"   -> { x \o y : x \in A(1), y \in A(2) }
    [] e.op = "union"    -> { Dedup(x \o y) : x \in A(1), y \in A(2) }
    [] e.op = "inter"    -> { SelectSeq(x, LAMBDA d : d \in RangeOf(y)) : x \in A(1), y \in A(2) }
    [] e.op = "diff"     -> { SelectSeq(x, LAMBDA d : d \notin RangeOf(y)) : x \in A(1), y \in A(2) }
    [] e.op = "symdiff"  -> { SelectSeq(x, LAMBDA d : d \notin RangeOf(y)) \o SelectSeq(y, LAMBDA d : d \notin RangeOf(x))
                              : x \in A(1), y \in A(2) }
    [] e.op = "inv"      -> { SelectSeq(in, LAMBDA d : d \notin RangeOf(y)) : y \in A(1) }
    [] e.op = "repeat"   -> RepSet(e.args[1], in, fit, e.k)
    [] e.op = "power"    -> PowSet(e.args[1], in, fit, e.k)
    [] e.op = "slice"    -> { PySlice(x, e.lo, e.hi, e.st) : x \in A(1) }
    [] e.op = "if_true"  -> IF Len(in) > e.thr THEN A(1) ELSE {in}
    [] e.op = "if_false" -> IF Len(in) > e.thr THEN {in} ELSE A(1)
    [] e.op = "until_change" -> A(1)        \* deterministic operand: the last attempt's output
    [] e.op = "dup_each" -> { LET RECURSIVE D2(_)
                                  D2(s) == IF s = <<>> THEN <<>> ELSE <<s[1], s[1]>> \o D2(Tail(s))
                              IN D2(x) : x \in A(1) }             \* x.for_each(lambda d: [d, d]).flatten()
RepSet(a, in, fit, k) == IF k <= 0 THEN {<<>>}
                         ELSE { x \o y : x \in EvalSet(a, in, fit), y \in RepSet(a, in, fit, k - 1) }
PowSet(a, in, fit, k) == IF k <= 0 THEN {in}
                         ELSE UNION { PowSet(a, m, fit, k - 1) : m \in EvalSet(a, in, fit) }

Eval(e, in, fit) == CHOOSE x \in EvalSet(e, in, fit) : TRUE

(* The set operators are specified (documentation) on operands without repeated individuals; with *)
(* repetitions the documented and the coded results differ in whether repetitions are kept.       *)
RECURSIVE Regular(_, _, _)
Regular(e, in, fit) ==
  /\ e.op \in {"union", "inter", "diff", "symdiff"} =>
        \A i \in 1..2 : \A x \in EvalSet(e.args[i], in, fit) : NoDup(x)
  /\ e.op = "inv" => NoDup(in) /\ \A x \in EvalSet(e.args[1], in, fit) : NoDup(x)
  /\ e.op = "pipeline" => /\ Regular(e.args[1], in, fit)
                          /\ \A m \in EvalSet(e.args[1], in, fit) : Regular(e.args[2], m, fit)
  /\ e.op \in {"power"} => \A j \in 0..(e.k - 1) : \A m \in PowSet(e.args[1], in, fit, j) : Regular(e.args[1], m, fit)
  /\ e.op \notin {"pipeline", "power"} => \A i \in 1..Len(e.args) : Regular(e.args[i], in, fit)
=============================================================================
