SPECIFICATION Spec
CONSTANTS
  IterUniverse <- U_tiny
  ExportUniverse <- U_inf
  MaxSize = 60
  NumValid = 12
  NumBase = 2
  NumCorr = 60
