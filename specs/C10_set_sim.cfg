SPECIFICATION Spec
CONSTANTS
  NKeys = 3
  MaxDepth = 3
  Regs = {1, 2, 3}
  Mirror = FALSE
  MaxLevel = 100
  SimK = 2
  Ops = {"add", "remove", "inplace", "pure", "copy", "rebase", "clear", "subtree"}
INVARIANT TrieWF
INVARIANT Refines
INVARIANT Canonical
INVARIANT ObsAgree
