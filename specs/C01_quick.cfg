SPECIFICATION Spec
CONSTANTS
  MaxNodes = 4
  Keys = {1, 2}
  Leafs = {101}
  Shapes = {200, 211}
  MaxLen = 2
  Acts = {"dict", "list", "perm", "clone", "forget"}
  Mirror = FALSE
  MaxLevel = 4
  InitKinds <- IK_DictList
  SimK = 0
CONSTRAINT LevelBound
VIEW view
INVARIANT TreeOK
INVARIANT OnePlace
INVARIANT DetachedOK
INVARIANT LookupOK
INVARIANT NoDangling
PROPERTY RemovedIsDetached
