\* as coded: inner draws dropped as duplicates are not re-drawn on recovery
SPECIFICATION Spec
CONSTANTS
  Algs = {"dd_random", "dd_random2"}
  D = 3
  N = 3
  W = 1
  L = 6
  MaxAtt = 3
  MaxCrash = 2
  InOrder = TRUE
  PModes = {"propose", "feedback"}
  Mirror = {"dd_draws"}
  LookAhead = 1
PROPERTY RecoverIsStutter
PROPERTY ContinuesSame
