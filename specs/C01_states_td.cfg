SPECIFICATION Spec
CONSTANTS
  MaxNodes = 4
  Keys = {1, 2}
  Leafs = {101}
  Shapes = {200, 211, 220}
  MaxLen = 2
  Acts = {"dict", "list", "clone"}
  Mirror = FALSE
  MaxLevel = 3
  InitKinds <- IK_TDictList
  SimK = 0
CONSTRAINT LevelBound
VIEW view
