INIT Init
NEXT Next
CONSTANTS
  Alphabet = {1, 2, 3, 4, 5, 6, 7, 8, 9}
  MaxStr = 5
  KeyLen = 2
  IntVals <- IV_small
  PathDepth = 2
  AKeys <- AK_quick
  ADepth = 2
  VKeys <- VK_quick
  VSmallKeys <- VS_quick
  VDeep = FALSE
  Part = "values"
