SPECIFICATION Spec
CONSTANTS
  MaxNodes = 4
  Keys = {1, 2}
  Leafs = {101, 150}
  Shapes = {200, 211, 221, 222}
  MaxLen = 2
  Acts = {"dict", "list", "nscope"}
  Mirror = FALSE
  MaxLevel = 3
  InitKinds <- IK_DictList
  SimK = 0
CONSTRAINT LevelBound
VIEW view
