------------------------------- MODULE EvoGeno -------------------------------
(***************************************************************************)
(* The small search spaces used for C14 and their valid-DNA sets (the      *)
(* declarative `Valid` of DESIGN D.3: arity, index ranges, distinctness,   *)
(* sortedness, conditional sub-spaces), plus the membership predicate      *)
(* IsValid used on logged operator outputs (it also covers float points,   *)
(* whose values are logged as integers in thousandths).                    *)
(*   spec  = [t |-> "space", elems] | [t |-> "choices", k, cands, distinct, sorted] | [t |-> "float", lo, hi] *)
(*   DNA   : space -> Seq of element DNAs; choices -> Seq (len k) of <<choice, DNA of the candidate space>>;   *)
(*           float -> Int                                                  *)
(***************************************************************************)
EXTENDS Integers, Sequences, FiniteSets

Const == [t |-> "space", elems |-> <<>>]
Sp(elems) == [t |-> "space", elems |-> elems]
Ch(k, cands, d, s) == [t |-> "choices", k |-> k, cands |-> cands, distinct |-> d, sorted |-> s]
Fl(lo, hi) == [t |-> "float", lo |-> lo, hi |-> hi]
One(cands) == Ch(1, cands, FALSE, FALSE)
C2 == <<Const, Const>>
C3 == <<Const, Const, Const>>
C4 == <<Const, Const, Const, Const>>

SpecNames == <<"A", "B", "C", "D", "E", "F", "H", "I", "J", "G">>
SpecOf(n) ==
  CASE n = "A" -> Sp(<<One(C3), One(C2)>>)                                         \* two independent choices
    [] n = "B" -> Sp(<<One(<<Sp(<<One(C2)>>), Const, Sp(<<One(C3)>>)>>)>>)          \* conditional sub-spaces
    [] n = "C" -> Sp(<<Ch(2, C3, TRUE, FALSE), One(C2)>>)                           \* distinct unsorted 2 of 3
    [] n = "D" -> Sp(<<Ch(3, C3, TRUE, FALSE), One(C2)>>)                           \* permutation of 3
    [] n = "E" -> Sp(<<Ch(2, <<Sp(<<One(C2)>>), Const, Const>>, TRUE, TRUE)>>)      \* distinct sorted, conditional candidate
    [] n = "F" -> Sp(<<Ch(2, C3, FALSE, TRUE), One(C2)>>)                           \* sorted with repetition
    [] n = "H" -> Sp(<<Ch(2, C3, FALSE, FALSE)>>)                                   \* free 2 of 3
    [] n = "I" -> Sp(<<One(<<Sp(<<Ch(2, C3, TRUE, FALSE)>>), Const>>), One(C2)>>)   \* multi-choice under a condition
    [] n = "J" -> Sp(<<Ch(4, C4, TRUE, FALSE), Ch(3, C3, TRUE, FALSE)>>)                \* two permutation points
    [] n = "G" -> Sp(<<One(C3), Fl(0, 1000)>>)                                      \* with a float point
HasFloat(n) == n = "G"

SeqProduct(sets) ==
  LET RECURSIVE P(_)
      P(i) == IF i = 0 THEN {<<>>} ELSE { Append(p, x) : p \in P(i - 1), x \in sets[i] }
  IN P(Len(sets))

RECURSIVE Valid(_)
Valid(sp) ==
  IF sp.t = "space" THEN SeqProduct([i \in 1..Len(sp.elems) |-> Valid(sp.elems[i])])
  ELSE IF sp.t = "float" THEN sp.lo..sp.hi
  ELSE LET n == Len(sp.cands)
           combos == { c \in [1..sp.k -> 0..(n - 1)] :
                         /\ (sp.distinct => \A i, j \in 1..sp.k : i # j => c[i] # c[j])
                         /\ (sp.sorted => \A i \in 1..(sp.k - 1) : c[i] <= c[i + 1]) }
       IN UNION { SeqProduct([i \in 1..sp.k |-> { <<c[i], sub>> : sub \in Valid(sp.cands[c[i] + 1]) }]) : c \in combos }

RECURSIVE IsValid(_, _)
IsValid(sp, d) ==
  IF sp.t = "space" THEN Len(d) = Len(sp.elems) /\ \A i \in 1..Len(d) : IsValid(sp.elems[i], d[i])
  ELSE IF sp.t = "float" THEN d \in sp.lo..sp.hi
  ELSE /\ Len(d) = sp.k
       /\ \A i \in 1..sp.k : /\ d[i][1] \in 0..(Len(sp.cands) - 1)
                             /\ IsValid(sp.cands[d[i][1] + 1], d[i][2])
       /\ sp.distinct => \A i, j \in 1..sp.k : i # j => d[i][1] # d[j][1]
       /\ sp.sorted => \A i \in 1..(sp.k - 1) : d[i][1] <= d[i + 1][1]
=============================================================================
