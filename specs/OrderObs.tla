------------------------------ MODULE OrderObs ------------------------------
(* Conformance model of C06: the laws of Order.tla evaluated on the relation tables OBSERVED on the real   *)
(* pg.eq / pg.ne / pg.lt / pg.gt / pg.hash / == / != / hash() / sorted() (Mode = "observed" in the cfg).            *)
EXTENDS Order


\* the observation was taken on exactly this universe
ASSUME /\ Obs.n = N
       /\ \A f \in {"eq", "ne", "lt", "gt", "opeq", "opne"} : Len(Obs[f]) = N /\ \A a \in Ix : Len(Obs[f][a]) = N
       /\ \A f \in {"hash", "hashok", "hashr", "hashrok", "ophash", "ophashok"} : Len(Obs[f]) = N
       /\ Len(Obs.sorts) > 0
=============================================================================
