SPECIFICATION OpsSpec
CONSTANTS
  IterUniverse <- U_tiny
  MaxSize = 200
  OpsUniverse <- U_ops
  Mirror = FALSE
  ShareMemo = FALSE
  MaxOps = 0
