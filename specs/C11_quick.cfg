SPECIFICATION Spec
CONSTANTS
  IterUniverse <- U_quick
  MaxSize = 200
INVARIANT Exact
INVARIANT Faithful
INVARIANT FirstIsLeast
INVARIANT Increasing
