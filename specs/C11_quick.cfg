SPECIFICATION Spec
CONSTANTS
  IterUniverse <- U_quick
  MaxSize = 60
INVARIANT Exact
INVARIANT Faithful
INVARIANT FirstIsLeast
INVARIANT Increasing
