\* as coded: Evolution.recover rebuilds the population in proposal order
SPECIFICATION Spec
CONSTANTS
  Algs = {"regevo", "nsga2", "neat", "sched"}
  D = 3
  N = 3
  W = 2
  L = 6
  MaxAtt = 3
  MaxCrash = 1
  InOrder = FALSE
  PModes = {"feedback"}
  Mirror = {"evo_order"}
  LookAhead = 1
PROPERTY RecoverIsStutter
PROPERTY ContinuesSame
