-------------------------------- MODULE Perm --------------------------------
(***************************************************************************)
(* C19 - permission-gated code execution.                                  *)
(*                                                                         *)
(* Programs are AST SKELETONS: chains <<k1, s1, k2, s2, k3, ...>> meaning  *)
(* "a node of kind k1 whose slot s1 holds a node of kind k2 whose slot s2  *)
(* holds ...", over the node kinds of the Python grammar and the           *)
(* syntactic positions (slots) in which one construct can hide inside      *)
(* another: statement body, else branch, handler, finally, decorator,      *)
(* default argument, return annotation, base class, test, iterable,        *)
(* comprehension element / condition, f-string value and format spec,      *)
(* lambda body, call argument, ...                                         *)
(*                                                                         *)
(* KindTab gives for every kind the permission it MUST have according to   *)
(* the property statement (assignment, condition, loop, call, exception    *)
(* handling, class definition, function definition, import), or the flags  *)
(* an implementation MAY demand for it (ambiguous kinds: both verdicts are *)
(* admissible unless all of these flags are granted).                      *)
(*                                                                         *)
(* Verdict(chain, perm) is the set of admissible outcomes.  The second     *)
(* half of the module is the evaluation mechanism as a small state         *)
(* machine - nested permission scopes (outermost wins), parse, validate    *)
(* EVERY node, only then execute - on which TLC checks containment         *)
(* (NoForbiddenRuns), Narrowing, ValidateBeforeRun and consistency with    *)
(* Verdict.  PermExport.tla exports (chain, verdicts for all 256 subsets)  *)
(* for the conformance harness (pgverif/perm.py).                          *)
(***************************************************************************)
EXTENDS Integers, Sequences, FiniteSets, TLC

CONSTANTS MaxDepth,     \* number of nodes in a chain
          MaxScopes     \* nesting of pg.coding.permission scopes

Flags == {"ASSIGN", "CONDITION", "LOOP", "CALL", "EXCEPTION", "CLASS_DEFINITION",
          "FUNCTION_DEFINITION", "IMPORT"}
\* bit values of pg.coding.CodePermission
Bit(f) == CASE f = "ASSIGN" -> 1 [] f = "CONDITION" -> 2 [] f = "LOOP" -> 4 [] f = "CALL" -> 8
            [] f = "EXCEPTION" -> 16 [] f = "CLASS_DEFINITION" -> 32
            [] f = "FUNCTION_DEFINITION" -> 64 [] f = "IMPORT" -> 128
PermOf(i) == {f \in Flags : (i \div Bit(f)) % 2 = 1}      \* i in 0..255
RECURSIVE SumBits(_)
SumBits(S) == IF S = {} THEN 0 ELSE LET f == CHOOSE x \in S : TRUE IN Bit(f) + SumBits(S \ {f})
MaskOf(p) == SumBits(p)

\* t: "S" statement / "E" expression; must: the flag the statement of the property requires
\* ("none" if the property does not gate the kind); amb: flags an implementation may require;
\* slots: the positions a child can take; ctx: where the kind may appear at all
\* (any / func: directly in a function body / afunc: directly in an async function body /
\*  loop: directly in a loop body)
K(t, must, amb, slots, ctx) == [t |-> t, must |-> must, amb |-> amb, slots |-> slots, ctx |-> ctx]
KindTab == [
  \* ---- statements ----
  \* store / chain_store (`a = b = v`) / asname are STORE positions: a name, a subscript or an attribute
  Assign           |-> K("S", "ASSIGN", {}, <<"value", "store", "chain_store">>, "any"),
  AugAssign        |-> K("S", "ASSIGN", {}, <<"value", "store">>, "any"),
  AnnAssign        |-> K("S", "ASSIGN", {}, <<"value", "annotation", "store">>, "any"),
  If               |-> K("S", "CONDITION", {}, <<"test", "body", "orelse">>, "any"),
  Match            |-> K("S", "CONDITION", {}, <<"subject", "body", "guard">>, "any"),
  For              |-> K("S", "LOOP", {}, <<"iter", "body", "orelse", "store">>, "any"),
  While            |-> K("S", "LOOP", {}, <<"test", "body">>, "any"),
  AsyncFor         |-> K("S", "LOOP", {}, <<"iter", "body">>, "afunc"),
  Try              |-> K("S", "EXCEPTION", {}, <<"body", "handler", "orelse", "final", "exctype">>, "any"),
  TryStar          |-> K("S", "EXCEPTION", {}, <<"body", "handler">>, "any"),
  Raise            |-> K("S", "EXCEPTION", {}, <<"exc", "cause">>, "any"),        \* raise X [from Y]
  Assert           |-> K("S", "EXCEPTION", {}, <<"test", "msg">>, "any"),
  ClassDef         |-> K("S", "CLASS_DEFINITION", {}, <<"body", "deco", "base", "keyword">>, "any"),
  FunctionDef      |-> K("S", "FUNCTION_DEFINITION", {}, <<"body", "deco", "default", "kwdefault", "returns", "argannotation">>, "any"),
  AsyncFunctionDef |-> K("S", "FUNCTION_DEFINITION", {}, <<"body", "deco", "default">>, "any"),
  Import           |-> K("S", "IMPORT", {}, <<>>, "any"),
  ImportFrom       |-> K("S", "IMPORT", {}, <<>>, "any"),
  With             |-> K("S", "none", {"CALL", "LOOP", "EXCEPTION"}, <<"item", "body", "asname">>, "any"),
  AsyncWith        |-> K("S", "none", {"CALL", "LOOP", "EXCEPTION"}, <<"item", "body">>, "afunc"),
  Delete           |-> K("S", "none", {"ASSIGN"}, <<"target">>, "any"),
  Return           |-> K("S", "none", {"FUNCTION_DEFINITION"}, <<"value">>, "func"),
  Global           |-> K("S", "none", {"ASSIGN", "FUNCTION_DEFINITION"}, <<>>, "func"),
  Nonlocal         |-> K("S", "none", {"ASSIGN", "FUNCTION_DEFINITION"}, <<>>, "nested"),
  TypeAlias        |-> K("S", "none", {"ASSIGN", "CLASS_DEFINITION"}, <<"value">>, "any"),
  Pass             |-> K("S", "none", {}, <<>>, "any"),
  Break            |-> K("S", "none", {"LOOP"}, <<>>, "loop"),
  Continue         |-> K("S", "none", {"LOOP"}, <<>>, "loop"),
  Expr             |-> K("S", "none", {}, <<"value">>, "any"),
  \* ---- expressions ----
  Call             |-> K("E", "CALL", {}, <<"arg", "func", "kwarg", "stararg">>, "any"),
  Lambda           |-> K("E", "FUNCTION_DEFINITION", {}, <<"lbody", "default">>, "any"),
  NamedExpr        |-> K("E", "ASSIGN", {}, <<"value">>, "any"),
  IfExp            |-> K("E", "none", {"CONDITION"}, <<"test", "ebody", "eorelse">>, "any"),
  BoolOp           |-> K("E", "none", {"CONDITION"}, <<"left", "right">>, "any"),
  ListComp         |-> K("E", "none", {"LOOP", "CONDITION"}, <<"elt", "iter", "cond">>, "any"),
  SetComp          |-> K("E", "none", {"LOOP", "CONDITION"}, <<"elt", "iter">>, "any"),
  DictComp         |-> K("E", "none", {"LOOP", "CONDITION"}, <<"key", "value", "iter">>, "any"),
  GeneratorExp     |-> K("E", "none", {"LOOP", "CONDITION", "FUNCTION_DEFINITION"}, <<"gelt", "iter">>, "any"),
  Yield            |-> K("E", "none", {"FUNCTION_DEFINITION"}, <<"value">>, "func"),
  YieldFrom        |-> K("E", "none", {"FUNCTION_DEFINITION"}, <<"value">>, "func"),
  Await            |-> K("E", "none", {"FUNCTION_DEFINITION"}, <<"value">>, "afunc"),
  BinOp            |-> K("E", "none", {}, <<"left", "right">>, "any"),
  UnaryOp          |-> K("E", "none", {}, <<"operand">>, "any"),
  Compare          |-> K("E", "none", {}, <<"left", "right">>, "any"),
  Attribute        |-> K("E", "none", {}, <<"value">>, "any"),
  Subscript        |-> K("E", "none", {}, <<"value", "index">>, "any"),
  Slice            |-> K("E", "none", {}, <<"lower", "upper", "step">>, "any"),
  Starred          |-> K("E", "none", {}, <<"value">>, "any"),
  List             |-> K("E", "none", {}, <<"elt">>, "any"),
  Tuple            |-> K("E", "none", {}, <<"elt">>, "any"),
  Set              |-> K("E", "none", {}, <<"elt">>, "any"),
  Dict             |-> K("E", "none", {}, <<"key", "value", "unpack">>, "any"),
  JoinedStr        |-> K("E", "none", {}, <<"fvalue", "fspec">>, "any"),
  FormattedValue   |-> K("E", "none", {}, <<>>, "nested"),      \* exists only inside JoinedStr
  Constant         |-> K("E", "none", {}, <<>>, "any"),
  Name             |-> K("E", "none", {}, <<>>, "any") ]

Kinds == DOMAIN KindTab

\* slots holding statements; every other slot holds an expression
StmtSlots == {"body", "orelse", "handler", "final"}
\* slots that are assignment targets: only kinds that can be stored to fit
StoreSlots == {"store", "chain_store", "asname"}
StoreKinds == {"Name", "Subscript", "Attribute"}
\* slots whose content is NOT evaluated when the program runs (only compiled)
\* - the verdict does not depend on this: a forbidden construct is refused wherever it hides
\* slots that add an implicit operation of their own: a decorator is an implicit call
SlotAmb(s) == IF s = "deco" THEN {"CALL"} ELSE {}

FuncKinds == {"FunctionDef", "AsyncFunctionDef"}
Fits(pk, s, ck) ==
  /\ ck # "Expr"                            \* the wrapper is implicit (an expression in a statement slot)
  /\ (s \in StmtSlots) \/ KindTab[ck].t = "E"
  /\ (s \in StoreSlots) => ck \in StoreKinds
  /\ CASE KindTab[ck].ctx = "any"    -> TRUE
       [] KindTab[ck].ctx = "func"   -> pk \in FuncKinds /\ s = "body"
       [] KindTab[ck].ctx = "afunc"  -> pk = "AsyncFunctionDef" /\ s = "body"
       [] KindTab[ck].ctx = "loop"   -> pk \in {"For", "While"} /\ s = "body"
       [] KindTab[ck].ctx = "nested" -> FALSE     \* needs two enclosing functions: not generated

SlotsOf(k) == {KindTab[k].slots[i] : i \in 1..Len(KindTab[k].slots)}
TopKinds == {k \in Kinds : KindTab[k].ctx = "any" /\ k # "Expr"}

\* chains with exactly n nodes, built incrementally (only valid prefixes are extended)
Ext(c) == UNION {{c \o <<s, ck>> : ck \in {k \in Kinds : Fits(c[Len(c)], s, k)}} : s \in SlotsOf(c[Len(c)])}
RECURSIVE Chains(_)
Chains(n) == IF n = 1 THEN {<<k>> : k \in TopKinds} ELSE UNION {Ext(c) : c \in Chains(n - 1)}
AllChains(d) == UNION {Chains(n) : n \in 1..d}

NodesOf(c) == {c[2 * i - 1] : i \in 1..((Len(c) + 1) \div 2)}
UsedSlots(c) == {c[2 * i] : i \in 1..((Len(c) - 1) \div 2)}
Must(c) == {KindTab[k].must : k \in NodesOf(c)} \ {"none"}
Amb(c)  == UNION ({KindTab[k].amb : k \in NodesOf(c)} \cup {SlotAmb(s) : s \in UsedSlots(c)})

\* the admissible outcomes of evaluating the program under the permission set p
Verdict(c, p) ==
  IF ~(Must(c) \subseteq p) THEN {"REJECT"}
  ELSE IF Amb(c) \subseteq p THEN {"ALLOW"}
  ELSE {"REJECT", "ALLOW"}
VerdictCode(c, p) == LET v == Verdict(c, p) IN
  IF v = {"ALLOW"} THEN 0 ELSE IF v = {"REJECT"} THEN 1 ELSE 2

ALLP   == Flags
BASICP == {"ASSIGN", "CALL"}

-----------------------------------------------------------------------------
(* Design-level laws of the verdict (checked by TLC as ASSUME in PermLaws  *)
(* and as invariants below)                                                *)
Monotone(d) == \A c \in AllChains(d) : \A p \in SUBSET Flags : \A f \in Flags :
                 ("ALLOW" \in Verdict(c, p)) => ("ALLOW" \in Verdict(c, p \cup {f}))
AllAllows(d) == \A c \in AllChains(d) : Verdict(c, ALLP) = {"ALLOW"}
EachFlagMatters == \A f \in Flags : \E k \in Kinds : KindTab[k].must = f
DeepContainment(d) ==        \* a forbidden kind is refused in every position of every other kind
  \A c \in AllChains(d) : \A k \in NodesOf(c) :
     KindTab[k].must # "none" => Verdict(c, ALLP \ {KindTab[k].must}) = {"REJECT"}

-----------------------------------------------------------------------------
(* Programs whose point is HOW the error they raise is reported: the kinds *)
(* they are made of (for the verdict) - the text is in pgverif/perm.py.    *)
(* Whatever the chaining, the CodeError must carry the exception that      *)
(* plain execution of the same text raises.                                *)
ErrProgs == [
  raise_from          |-> {"Try", "Raise"},          \* except E as e: raise X from e
  raise_from_fresh    |-> {"Raise"},                 \* raise X from Y
  raise_from_none     |-> {"Try", "Raise"},          \* except E: raise X from None
  implicit_chain      |-> {"Try", "Raise"},          \* except E: raise X
  reraise             |-> {"Try", "Raise"},          \* except E: raise
  nested_reraise      |-> {"Try", "Raise"},          \* try: (try: raise E except E: raise X from ...) except X: raise
  raise_in_finally    |-> {"Try", "Raise"},          \* finally: raise X   (while E propagates)
  raise_from_in_func  |-> {"FunctionDef", "Try", "Raise", "Call", "Return"},
  assert_message      |-> {"Assert"} ]
MustK(ks) == {KindTab[k].must : k \in ks} \ {"none"}
AmbK(ks)  == UNION {KindTab[k].amb : k \in ks}

-----------------------------------------------------------------------------
(* Histories of permission scopes: enter P / enter ALL / enter NOTHING /   *)
(* exit, well nested to depth <= 3, after which a program is evaluated.    *)
(* P is the permission set under test.  What counts at the end is the      *)
(* OUTERMOST scope still open - in particular after inner scopes have been *)
(* entered AND LEFT again (Restores of C17 with evaluation as the probe).  *)
\* op codes: 0 exit, 1 enter P, 2 enter ALL, 3 enter NOTHING
RECURSIVE OpenAfter(_)
OpenAfter(h) ==          \* the stack of open scopes after history h, or <<-1>> if h is not well nested
  IF h = <<>> THEN <<>>
  ELSE LET st == OpenAfter(SubSeq(h, 1, Len(h) - 1))
           op == h[Len(h)] IN
       IF st = <<-1>> THEN <<-1>>
       ELSE IF op = 0 THEN (IF st = <<>> THEN <<-1>> ELSE SubSeq(st, 1, Len(st) - 1))
       ELSE IF Len(st) >= 3 THEN <<-1>> ELSE Append(st, op)
Histories(L) == {h \in UNION {[1..n -> 0..3] : n \in 1..L} : OpenAfter(h) # <<-1>>}
\* effective scope after h, declaratively: the outermost open one (0 = no scope at all)
EffAfter(h) == LET st == OpenAfter(h) IN IF st = <<>> THEN 0 ELSE st[1]
\* ... and by the mechanism as coded (thread-local slot; the outer value replaces the requested one;
\* only the outermost scope deletes the slot): <<slot, saved outer values>>
RECURSIVE MechAfter(_)
MechAfter(h) ==
  IF h = <<>> THEN <<0, <<>>>>
  ELSE LET m == MechAfter(SubSeq(h, 1, Len(h) - 1))
           op == h[Len(h)] IN
       IF op = 0 THEN <<IF m[2][Len(m[2])] = 0 THEN 0 ELSE m[1], SubSeq(m[2], 1, Len(m[2]) - 1)>>
       ELSE <<IF m[1] # 0 THEN m[1] ELSE op, Append(m[2], m[1])>>
MechanismRestores(L) == \A h \in Histories(L) : MechAfter(h)[1] = EffAfter(h)

-----------------------------------------------------------------------------
(* The mechanism: nested permission scopes, then evaluate = parse,         *)
(* validate every node, execute.                                           *)
VARIABLES prog,      \* the chain being evaluated
          scopes,    \* permission scopes entered, outermost first (sets of flags)
          phase,     \* "idle" | "validating" | "rejected" | "running" | "done"
          visited,   \* nodes of the chain the validator has looked at
          ran,       \* TRUE once any part of the program has been executed (the sentinel)
          arg        \* the permission ARGUMENT of this evaluate()/run() call: NoArg or a set of flags
vars == <<prog, scopes, phase, visited, ran, arg>>

NoArg == {"#no permission argument"}
\* The argument can narrow what the open scopes grant, never widen it: with both present the
\* evaluation runs under their intersection; with only one of them, under that one.
Combine(scope, a) == IF a = NoArg THEN scope ELSE scope \cap a
ArgChoices(c) == {NoArg, ALLP, {}, Must(c), Must(c) \cup Amb(c)} \cup {ALLP \ {f} : f \in Must(c)}

\* the permission sets tried around a program: everything, everything but one needed flag,
\* only the needed flags, BASIC, nothing
PermChoices(c) ==
  {ALLP, BASICP, {}, Must(c), Must(c) \cup Amb(c)} \cup {ALLP \ {f} : f \in Must(c) \cup Amb(c)}

\* the outermost scope wins among the scopes; the call's own argument can only narrow it
Effective == IF scopes = <<>> THEN arg ELSE Combine(scopes[1], arg)
NodeSeq(c) == [i \in 1..((Len(c) + 1) \div 2) |-> c[2 * i - 1]]
SlotBefore(c, i) == IF i = 1 THEN "top" ELSE c[2 * i - 2]

Init ==
  /\ prog \in AllChains(MaxDepth)
  /\ scopes = <<>> /\ phase = "idle" /\ visited = 0 /\ ran = FALSE /\ arg = NoArg

EnterScope(p) ==
  /\ phase = "idle" /\ Len(scopes) < MaxScopes
  /\ scopes' = Append(scopes, p)
  /\ UNCHANGED <<prog, phase, visited, ran, arg>>

\* evaluate(code, permission=a): some permission must be in force (a scope or the argument), otherwise
\* nothing is validated at all; an argument is explored under at most one open scope (state space)
StartEvaluate(a) ==
  /\ phase = "idle"
  /\ scopes # <<>> \/ a # NoArg
  /\ a # NoArg => Len(scopes) <= 1
  /\ phase' = "validating" /\ arg' = a
  /\ UNCHANGED <<prog, scopes, visited, ran>>

\* the validator looks at the next node (and the slot it sits in)
VisitNode ==
  /\ phase = "validating" /\ visited < Len(NodeSeq(prog))
  /\ LET k == NodeSeq(prog)[visited + 1]
         need == IF KindTab[k].must = "none" THEN {} ELSE {KindTab[k].must}
         may  == KindTab[k].amb \cup SlotAmb(SlotBefore(prog, visited + 1)) IN
     \/ /\ ~(need \subseteq Effective)
        /\ phase' = "rejected" /\ UNCHANGED visited
     \/ /\ need \subseteq Effective /\ ~(may \subseteq Effective)     \* ambiguous: either
        /\ \/ phase' = "rejected" /\ UNCHANGED visited
           \/ visited' = visited + 1 /\ UNCHANGED phase
     \/ /\ need \subseteq Effective /\ may \subseteq Effective
        /\ visited' = visited + 1 /\ UNCHANGED phase
  /\ UNCHANGED <<prog, scopes, ran, arg>>

FinishValidate ==
  /\ phase = "validating" /\ visited = Len(NodeSeq(prog))
  /\ phase' = "running"
  /\ UNCHANGED <<prog, scopes, visited, ran, arg>>

Run ==
  /\ phase = "running"
  /\ ran' = TRUE /\ phase' = "done"
  /\ UNCHANGED <<prog, scopes, visited, arg>>

Next == \/ \E p \in PermChoices(prog) : EnterScope(p)
        \/ \E a \in ArgChoices(prog) : StartEvaluate(a)
        \/ VisitNode \/ FinishValidate \/ Run
Spec == Init /\ [][Next]_vars

\* nothing of a program containing a forbidden construct is ever executed
NoForbiddenRuns == ran => Must(prog) \subseteq Effective
\* execution starts only after every node has been validated
ValidateBeforeRun == phase \in {"running", "done"} => visited = Len(NodeSeq(prog))
RanOnlyWhenDone == ran => phase = "done"
\* an outer scope is only ever narrowed: whatever runs is allowed by the OUTERMOST open scope - whatever
\* scopes are nested inside it and whatever permission ARGUMENT the call itself carries
Narrowing == (ran /\ scopes # <<>>) => "ALLOW" \in Verdict(prog, scopes[1])
\* ... and by the call's own argument, if it has one
ArgumentRespected == (ran /\ arg # NoArg) => "ALLOW" \in Verdict(prog, arg)
\* a program is refused only if some construct really lacks a (possibly ambiguous) permission
RejectJustified == phase = "rejected" => "REJECT" \in Verdict(prog, Effective)
\* the mechanism and the verdict table agree
OutcomeInVerdict ==
  /\ phase = "done" => "ALLOW" \in Verdict(prog, Effective)
  /\ phase = "rejected" => "REJECT" \in Verdict(prog, Effective)
\* a program whose every (must and may) flag is granted by what is in force always gets to run
AllowedEventuallyRuns ==
  (phase # "idle" /\ (Must(prog) \cup Amb(prog)) \subseteq Effective) => phase # "rejected"
\* the combination is a narrowing of both and widens neither (checked on all 256 x 256 pairs by PermExport)
CombineNarrows == \A p, q \in SUBSET Flags : Combine(p, q) \subseteq p /\ Combine(p, q) \subseteq q /\ Combine(p, NoArg) = p
=============================================================================
