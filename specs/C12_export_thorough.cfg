SPECIFICATION OpsSpec
CONSTANTS
  IterUniverse <- U_tiny
  MaxSize = 150
  OpsUniverse <- U_ops
  Mirror = FALSE
  ShareMemo = FALSE
  MaxOps = 0
  ViewUniverse <- U_views_thorough
  NumTrees = 6
