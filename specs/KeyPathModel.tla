---------------------------- MODULE KeyPathModel ----------------------------
(***************************************************************************)
(* Design-level run for C10: TLC evaluates the laws of path addressing on  *)
(* the reference semantics of KeyPath.tla over finite universes and        *)
(* exports the universes TOGETHER WITH the reference answers (JSON) for    *)
(* the conformance harness (pgverif/keypath.py).  KeyPathLaws.tla later    *)
(* evaluates the same laws on the relations observed on the real code.     *)
(***************************************************************************)
EXTENDS KeyPathUniv, Json, IOUtils, SequencesExt

PathU0 == PathU(0)
AU0 == AU(0)
ValU0 == ValU(0)
StrU0 == StrU(0)

\* ---- design-level laws on the reference semantics -------------------------
LtI(a, b) == PathLt(a, b, "intended")
AlgebraModel ==
  /\ \A a, b \in AU0 : /\ Sub(Concat(a, b), a) = [ok |-> TRUE, keys |-> b]
                      /\ PrefixOf(a, Concat(a, b))
                      /\ Len(Concat(a, b)) = Len(a) + Len(b)
                      /\ (b # <<>> => ParentOf(Concat(a, b)).keys = Concat(a, ParentOf(b).keys))
                      /\ (Sub(a, b).ok <=> PrefixOf(b, a))
                      /\ (Sub(a, b).ok => Concat(b, Sub(a, b).keys) = a)
OrderIntended == /\ Irreflexive(AU0, LtI) /\ Transitive(AU0, LtI)
                 /\ Trichotomous(AU0, LtI) /\ PrefixFirst(AU0, LtI)
\* the rule as coded: TLC searches the design for counter-examples (believed only if the code reproduces them)
BadTriples == {t \in AU0 \X AU0 \X AU0 : PathLt(t[1], t[2], "coded") /\ PathLt(t[2], t[3], "coded") /\ ~PathLt(t[1], t[3], "coded")}
BadPairs == {t \in AU0 \X AU0 : t[1] # t[2] /\ ~PathLt(t[1], t[2], "coded") /\ ~PathLt(t[2], t[1], "coded")}
TraverseModel == \A v \in ValU0 : VisitLogOK(v, Visits(v))
FlattenModel == \A v \in ValU0 : InFlattenDomain(v) => Canonicalize(Flatten(v)) = v
\* ... whatever the order of the flattened entries (the path-keyed form is a mapping)
FlattenOrderModel == \A v \in ValU0 : InFlattenDomain(v) => SameValue(v, Canonicalize(Reverse(Flatten(v))))
FlattenPathsModel == \A v \in ValU0 : \A i \in 1..Len(Flatten(v)) :
                        Parse(Format(Flatten(v)[i].p)) = [ok |-> TRUE, keys |-> Flatten(v)[i].p]

ASSUME PrintT(<<"model", "strings", Cardinality(StrU0), "paths", Cardinality(PathU0), "algebra_paths", Cardinality(AU0), "values", Cardinality(ValU0)>>)
ASSUME PrintT(<<"model", "AlgebraModel", AlgebraModel>>)
ASSUME PrintT(<<"model", "OrderIntended", OrderIntended>>)
ASSUME PrintT(<<"model", "TraverseModel", TraverseModel>>)
ASSUME PrintT(<<"model", "FlattenModel", FlattenModel>>)
ASSUME PrintT(<<"model", "FlattenOrderModel", FlattenOrderModel>>)
ASSUME PrintT(<<"model", "FlattenPathsModel", FlattenPathsModel>>)
ASSUME PrintT(<<"design", "coded_order_intransitive_triples", Cardinality(BadTriples),
                "coded_order_incomparable_pairs", Cardinality(BadPairs)>>)
ASSUME AlgebraModel /\ OrderIntended /\ TraverseModel /\ FlattenModel /\ FlattenOrderModel /\ FlattenPathsModel

\* ---- export ---------------------------------------------------------------
StrSeq == SetToSeq(StrU0)
PathSeq == SetToSeq(PathU0)
AUSeq == SetToSeq(AU0)
ValSeq == SetToSeq(ValU0)
BadT == SetToSeq(BadTriples)
ASSUME JsonSerialize(IOEnv.OUT_FILE,
  [strs |-> [i \in 1..Len(StrSeq) |-> [s |-> StrSeq[i], r |-> Parse(StrSeq[i])]],
   paths |-> [i \in 1..Len(PathSeq) |-> [p |-> PathSeq[i], f |-> Format(PathSeq[i])]],
   au |-> AUSeq,
   vals |-> [i \in 1..Len(ValSeq) |-> [v |-> ValSeq[i], dom |-> InFlattenDomain(ValSeq[i])]],
   bad_triples |-> [i \in 1..(IF Len(BadT) < 20 THEN Len(BadT) ELSE 20) |-> BadT[i]]])

VARIABLE x
Init == x = 0
Next == UNCHANGED x
=============================================================================
