---------------------------- MODULE DiffDesign ----------------------------
(* Design-level model of pg.diff (G01): the laws of Diff.tla and the patch machine evaluated on the reference   *)
(* entries (Mode = "design" in the cfg), and the export of the universe for the conformance run.                *)
(*   SameRule = "intended": every law holds on the whole universe and every patch order ends in the right value. *)
(*   SameRule = "coded" (mode 'same' as pg.diff computes it today): TLC must EXHIBIT the counter-example to       *)
(*     ModePartition (DesignFindings) and prove the laws outside that zone.                                      *)
EXTENDS Diff

ASSUME UniverseOK
ASSUME \A r \in 1..NRegs : TLCSet(r, 0)

DesignFindings ==
  \E a \in Ix, b \in Ix : \E v \in LawViol(a, b, "same_type") :
    v[1] = "ModePartition" /\ ZoneOf(v, a, b, "same_type") = "same-below-diff"
ASSUME SameRule = "coded" => DesignFindings

StrTable == <<"a", "b">>
KeyTable == <<<<KA, "a">>, <<KB, "b">>, <<KC, "c">>, <<FX, "x">>, <<FY, "y">>, <<FZ, "z">>, <<TYPE, "_type">>>>
ASSUME JsonSerialize(IOEnv.OUT_FILE,
                     [universe |-> U, n |-> N, strs |-> StrTable, keys |-> KeyTable, collapses |-> Collapses,
                      modes |-> Modes, forms |-> Forms,
                      determined |-> [a \in Ix |-> [b \in Ix |-> [k \in 1..Len(Collapses) |->
                                        Bit(Determined(a, b, Collapses[k]))]]]])
=============================================================================
