\* C15 quick: every behaviour with <= 4 proposals, sequential feedback (<= 1 in flight), <= 2 crashes; intended recover rules
SPECIFICATION Spec
CONSTANTS
  Algs = {"sweep", "random", "dd_sweep", "dd_random", "dd_random2", "regevo", "hill", "hill2", "nsga2", "neat", "sched", "dd_regevo", "dd_hill_auto"}
  D = 3
  N = 4
  W = 1
  L = 6
  MaxAtt = 3
  MaxCrash = 2
  InOrder = TRUE
  PModes = {"propose", "feedback"}
  Mirror = {}
  LookAhead = 1
INVARIANT CountsOK
INVARIANT InflightOK
INVARIANT PopFromHist
INVARIANT DedupMemoryOK
PROPERTY RecoverIsStutter
PROPERTY ContinuesSame
