INIT Init
NEXT Next
CONSTANT U = "quick"
