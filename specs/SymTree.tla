------------------------------ MODULE SymTree ------------------------------
(***************************************************************************)
(* The symbolic object tree of PyGlove: pg.Dict / pg.List / pg.Object      *)
(* nodes, their parent links and positions, write-protection flags, the    *)
(* scoped overrides and change notification.                               *)
(*                                                                         *)
(* One action per public API call.  `parent` and `pkey` are state that the *)
(* actions maintain with the same mechanisms the code uses (detach the     *)
(* replaced child, relocate-or-copy an inserted node, re-index the         *)
(* siblings of a list, recursive re-pathing is implied because paths are   *)
(* derived from the parent/pkey chain); the invariants say that this       *)
(* bookkeeping always agrees with where nodes are actually stored.         *)
(*                                                                         *)
(* Values are integers: node references 1..MaxNodes, leaves 101.., None =  *)
(* 99, the missing-value marker = 98.  Dict keys are small ints (1,2,..),  *)
(* list position i is key 1000+i.  Value descriptors (what the user passes)*)
(* are leaves, "shapes" (fresh plain containers: 200 {} 201 {1:101} 210 [] *)
(* 211 [{}] 220 A()), or an existing node.  5000+x is pg.Insertion(x).     *)
(*                                                                         *)
(* Mirror = FALSE: the intended semantics (what the property requires).    *)
(* Mirror = TRUE : four mechanisms as coded at the pinned commit (same-    *)
(*   place shortcut on insertion, no detach on list delete, no re-index on *)
(*   reverse, re-index only inside the notification step) so that TLC can  *)
(*   search the coded design for violations of the same invariants.        *)
(***************************************************************************)
EXTENDS Integers, Sequences, FiniteSets, TLC, PySeq, Randomization, Json, IOUtils

CONSTANTS MaxNodes,      \* node ids 1..MaxNodes
          Keys,          \* dict keys (ints)
          Leafs,         \* leaf values the user may write
          Shapes,        \* subset of {200, 201, 210, 211, 220}
          MaxLen,        \* bound on container size
          Acts,          \* enabled action families
          Mirror,        \* see above
          MaxLevel,      \* depth bound (used by the state constraint)
          InitKinds,     \* <<kind of node 1, kind of node 2, ...>> of the initial roots
          SimK           \* 0: quantify over whole argument sets (exhaustive); k > 0: over k random members (simulation only)

VARIABLES kind, ditems, litems, parent, pkey, sealed, accw, subs,
          sstk, astk, nstk,       \* scoped overrides: as_sealed / allow_writable_accessors / notify_on_change
          out, evts, act,         \* observation variables: result of the last call, events it delivered, the call itself
          memo,                   \* memoised derived facts per node: <<valid, missing, nondefault, hasPlaceholder>>
          facts                   \* observation variable: the derived facts a fresh computation gives (when "facts" \in Acts)

tree == <<kind, ditems, litems, parent, pkey, sealed, accw, subs>>
vars == <<kind, ditems, litems, parent, pkey, sealed, accw, subs, sstk, astk, nstk, out, evts, act, memo, facts>>
view == <<kind, ditems, litems, parent, pkey, sealed, accw, subs, sstk, astk, nstk, memo>>

NULL == 0
MISSING == 98
PNONE == 99
INS == 5000
Nodes == 1..MaxNodes
IsRef(v) == v \in Nodes
IsIns(v) == v >= INS
LKey(i) == 1000 + i              \* key of list position i (0-based)
ObjKeys == {1, 2}                \* the two fields x, y of test class A

St == [kind |-> kind, ditems |-> ditems, litems |-> litems, parent |-> parent,
       pkey |-> pkey, sealed |-> sealed, accw |-> accw, subs |-> subs]

Alive(s) == {n \in Nodes : s.kind[n] # "free"}
FreeSet(s) == {n \in Nodes : s.kind[n] = "free"}
MinOf(S) == CHOOSE x \in S : \A y \in S : x <= y
IsDictLike(s, n) == s.kind[n] \in {"dict", "tdict", "obj", "objb", "objc", "objd", "sd3", "sd2", "sd1"}
\* "tdict": a pg.Dict bound to a value spec with one dynamic key admitting any value: it behaves like a schemaless
\* dict (except that popitem() is refused) but takes the typed code paths (e.g. pass-through construction in clone)
IsPlainDict(s, n) == s.kind[n] \in {"dict", "tdict"}
\* "sd3" / "sd2" / "sd1": a pg.Dict bound to a three-level schema with fixed keys
\*   sd3 = {a : sd2 = {a : sd1 = {a : Any = None, b : Any = None}, b : Any = None}, b : Any = None}
\* i.e. exactly what the attribute container of an object is: fixed keys, defaults, a typed member that is never
\* replaced.  They follow the rules of objects (IsObj) but are plain containers: no change subscription of their own.
IsObj(s, n) == s.kind[n] \in {"obj", "objb", "objc", "objd", "sd3", "sd2", "sd1"}
\* "objd": class D(A) with allow_symbolic_mutation = False: instances are born sealed (the constructor seals deeply)
\* "tlist": a pg.List bound to List(Object(Symbolic), min_size = 1): it rejects leaves and plain containers (TypeError)
\* and refuses to become empty (ValueError); a rejected write leaves the whole tree as it was
IsList(s, n) == s.kind[n] \in {"list", "tlist"}
TMin == 1
PH == 150                        \* a search-space placeholder leaf (pg.oneof)
RF == 160                        \* an explicit reference leaf (pg.Ref to a shared non-symbolic object)
TB == 170                        \* a tuple leaf holding a symbolic dict inside a nested tuple (a deep clone must copy it)
Opaque == {PH, RF, TB}           \* leaves that are objects of their own: every write stores a NEW object
\* test classes: A(x = None, y = None); B(z required -- no default, w = None), created with B.partial();
\* C(m : A = A(), w = None): an object-typed field with a default object (field m always holds an A node and is never written)
DefaultOf(k, key) == IF k = "objb" /\ key = 1 THEN MISSING ELSE PNONE

Slot(s, n) == IF IsDictLike(s, n) THEN {<<s.ditems[n][i][1], s.ditems[n][i][2]>> : i \in 1..Len(s.ditems[n])}
              ELSE IF IsList(s, n) THEN {<<LKey(i - 1), s.litems[n][i]>> : i \in 1..Len(s.litems[n])}
              ELSE {}
ChildrenOf(s, n) == {kv[2] : kv \in Slot(s, n)} \cap Nodes
RECURSIVE Desc(_,_)
Desc(s, n) == {n} \cup UNION {Desc(s, c) : c \in ChildrenOf(s, n)}
RECURSIVE Ancestors(_,_)            \* proper ancestors through the parent link
Ancestors(s, n) == IF s.parent[n] = NULL THEN {} ELSE {s.parent[n]} \cup Ancestors(s, s.parent[n])
RECURSIVE PathOf(_,_)
PathOf(s, n) == IF s.parent[n] = NULL THEN <<>> ELSE Append(PathOf(s, s.parent[n]), s.pkey[n])
RECURSIVE RootOf(_,_)
RootOf(s, n) == IF s.parent[n] = NULL THEN n ELSE RootOf(s, s.parent[n])
\* path of descendant d relative to ancestor-or-self a
RECURSIVE RelPath(_,_,_)
RelPath(s, a, d) == IF d = a THEN <<>> ELSE Append(RelPath(s, a, s.parent[d]), s.pkey[d])
RECURSIVE Lookup(_,_,_)
Lookup(s, n, p) == IF p = <<>> THEN n
                   ELSE IF ~IsRef(n) THEN NULL
                   ELSE LET hits == {kv \in Slot(s, n) : kv[1] = p[1]} IN
                        IF hits = {} THEN NULL ELSE Lookup(s, (CHOOSE kv \in hits : TRUE)[2], Tail(p))

KeyIdx(s, n, k) == IF \E i \in 1..Len(s.ditems[n]) : s.ditems[n][i][1] = k
                   THEN CHOOSE i \in 1..Len(s.ditems[n]) : s.ditems[n][i][1] = k ELSE 0

---------------------------------------------------------------------------
(* Scoped overrides *)
Top(stk, dflt) == IF stk = <<>> THEN dflt ELSE stk[Len(stk)]
TreatSealed(s, n) == LET t == Top(sstk, "N") IN IF t = "N" THEN s.sealed[n] ELSE t = "T"
AccW(s, n) == LET t == Top(astk, "N") IN IF t = "N" THEN s.accw[n] ELSE t = "T"
NotifyOn == Top(nstk, TRUE)

---------------------------------------------------------------------------
(* Mechanisms *)

Detach(s, m) == IF IsRef(m) THEN [s EXCEPT !.parent[m] = NULL, !.pkey[m] = NULL] ELSE s

\* re-index the children of list n after an insertion / deletion / permutation
Reindex(s, n) ==
  [s EXCEPT !.pkey = [m \in Nodes |->
     IF s.parent[m] = n /\ \E i \in 1..Len(s.litems[n]) : s.litems[n][i] = m
     THEN LKey((CHOOSE i \in 1..Len(s.litems[n]) : s.litems[n][i] = m) - 1) ELSE s.pkey[m]]]

NewNode(s, r, k, par, key) ==
  [s EXCEPT !.kind[r] = k, !.ditems[r] = <<>>, !.litems[r] = <<>>, !.parent[r] = par, !.pkey[r] = key,
            !.sealed[r] = (k = "objd"), !.accw[r] = TRUE, !.subs[r] = (k \in {"obj", "objb", "objc", "objd"})]

\* Symbolic clone of the subtree at m into free ids.  Every symbolic node is copied (deep and
\* shallow clone differ only in leaf objects, which are values here).  Flags: Dict keeps
\* accessor-writable, sealed and the callback; Object keeps sealed; List keeps accessor-writable
\* and (intended) sealed -- the callback of a List is not carried over (as coded; not a behavioural flag).
\* A copy is built by the constructor with the original's flags; a constructor called with sealed = TRUE
\* seals everything below it, so a copied node is sealed iff the original or one of its copied ancestors was.
RECURSIVE CloneIntoS(_,_,_)
CloneIntoS(s, m, inh) ==       \* returns [s, root]; caller guarantees enough free ids
  LET r == MinOf(FreeSet(s))
      sl == inh \/ s.sealed[m]
      s0 == [NewNode(s, r, s.kind[m], NULL, NULL) EXCEPT
               !.sealed[r] = sl,
               !.accw[r] = s.accw[m],
               !.subs[r] = IF IsList(s, m) THEN FALSE ELSE s.subs[m]]
  IN IF IsDictLike(s, m) THEN
       LET F[i \in 0..Len(s.ditems[m])] ==
             IF i = 0 THEN s0
             ELSE LET kv == s.ditems[m][i] IN
                  IF IsRef(kv[2]) THEN
                    LET c == CloneIntoS(F[i-1], kv[2], sl) IN
                    [c.s EXCEPT !.ditems[r] = Append(@, <<kv[1], c.root>>), !.parent[c.root] = r, !.pkey[c.root] = kv[1]]
                  ELSE [F[i-1] EXCEPT !.ditems[r] = Append(@, kv)]
       IN [s |-> F[Len(s.ditems[m])], root |-> r]
     ELSE
       LET F[i \in 0..Len(s.litems[m])] ==
             IF i = 0 THEN s0
             ELSE LET v == s.litems[m][i] IN
                  IF IsRef(v) THEN
                    LET c == CloneIntoS(F[i-1], v, sl) IN
                    [c.s EXCEPT !.litems[r] = Append(@, c.root), !.parent[c.root] = r, !.pkey[c.root] = LKey(i - 1)]
                  ELSE [F[i-1] EXCEPT !.litems[r] = Append(@, v)]
       IN [s |-> F[Len(s.litems[m])], root |-> r]
CloneInto(s, m) == CloneIntoS(s, m, FALSE)

ShapeNeed(vd) == IF vd \in {200, 201, 210, 220, 221, 223} THEN 1 ELSE IF vd \in {211, 222} THEN 2 ELSE 0

\* does storing existing node vd under (holder, key) copy it?  `ins` = the write is an insertion.
MustCopy(s, holder, key, vd, ins) ==
  /\ s.parent[vd] # NULL
  /\ IF Mirror THEN ~(s.parent[vd] = holder /\ s.pkey[vd] = key)
     ELSE (ins \/ ~(s.parent[vd] = holder /\ s.pkey[vd] = key))

\* Turn a value descriptor into a stored value under (holder, key): [ok, s, v]
Formalize(s, holder, key, vd, ins) ==
  IF ~IsRef(vd) /\ vd \notin {200, 201, 210, 211, 220, 221, 222, 223} THEN [ok |-> TRUE, s |-> s, v |-> vd]
  ELSE IF ~IsRef(vd) THEN
    IF Cardinality(FreeSet(s)) < ShapeNeed(vd) THEN [ok |-> FALSE, s |-> s, v |-> vd]
    ELSE LET r == MinOf(FreeSet(s)) IN
      CASE vd = 200 -> [ok |-> TRUE, s |-> NewNode(s, r, "dict", holder, key), v |-> r]
        [] vd = 201 -> [ok |-> TRUE, s |-> [NewNode(s, r, "dict", holder, key) EXCEPT !.ditems[r] = << <<1, 101>> >>], v |-> r]
        [] vd = 210 -> [ok |-> TRUE, s |-> NewNode(s, r, "list", holder, key), v |-> r]
        [] vd = 211 -> LET s1 == NewNode(s, r, "list", holder, key)
                           c == MinOf(FreeSet(s1))
                       IN [ok |-> TRUE, s |-> [NewNode(s1, c, "dict", r, LKey(0)) EXCEPT !.litems[r] = <<c>>], v |-> r]
        [] vd = 220 -> [ok |-> TRUE,
                        s |-> [NewNode(s, r, "obj", holder, key) EXCEPT !.ditems[r] = << <<1, PNONE>>, <<2, PNONE>> >>],
                        v |-> r]
        [] vd = 223 -> [ok |-> TRUE,
                        s |-> [NewNode(s, r, "objd", holder, key) EXCEPT !.ditems[r] = << <<1, PNONE>>, <<2, PNONE>> >>],
                        v |-> r]
        [] vd = 222 -> LET s1 == NewNode(s, r, "objc", holder, key)
                           c == MinOf(FreeSet(s1))
                       IN [ok |-> TRUE,
                           s |-> [NewNode(s1, c, "obj", r, 1) EXCEPT !.ditems[c] = << <<1, PNONE>>, <<2, PNONE>> >>,
                                                                     !.ditems[r] = << <<1, c>>, <<2, PNONE>> >>],
                           v |-> r]
        [] vd = 221 -> [ok |-> TRUE,
                        s |-> [NewNode(s, r, "objb", holder, key) EXCEPT !.ditems[r] = << <<1, MISSING>>, <<2, PNONE>> >>],
                        v |-> r]
  ELSE \* an existing node: relocate or copy
    IF MustCopy(s, holder, key, vd, ins) THEN
      IF Cardinality(FreeSet(s)) < Cardinality(Desc(s, vd)) THEN [ok |-> FALSE, s |-> s, v |-> vd]
      ELSE LET c == CloneInto(s, vd) IN
           [ok |-> TRUE, s |-> [c.s EXCEPT !.parent[c.root] = holder, !.pkey[c.root] = key], v |-> c.root]
    ELSE [ok |-> TRUE, s |-> [s EXCEPT !.parent[vd] = holder, !.pkey[vd] = key], v |-> vd]

\* a node may not be stored inside its own subtree (that would build a cycle; user error)
OkTarget(s, n, vd) == IsRef(vd) => (s.kind[vd] # "free" /\ n \notin Desc(s, vd))

Upd(t, k, old, new) == [t |-> t, k |-> k, old |-> old, new |-> new]
NoUpd == <<>>

\* --- write primitive of a dict-like node: [ok, s, ups]
WriteD(s, n, k, vd) ==
  LET i == KeyIdx(s, n, k)
      old == IF i = 0 THEN MISSING ELSE s.ditems[n][i][2]
  IN IF s.kind[n] \in {"objc", "sd3", "sd2"} /\ k = 1 THEN [ok |-> FALSE, s |-> s, ups |-> NoUpd]   \* the typed member of C / of a schema dict is not written
     ELSE IF old = vd /\ IsRef(vd) THEN [ok |-> TRUE, s |-> s, ups |-> NoUpd]        \* same object: no update
     ELSE IF vd = MISSING THEN
       IF i = 0 THEN [ok |-> TRUE, s |-> s, ups |-> NoUpd]
       ELSE IF IsObj(s, n) THEN                                                 \* field reset to its default
            LET s0 == Detach(s, old)  dv == DefaultOf(s.kind[n], k) IN
            IF old = dv THEN [ok |-> FALSE, s |-> s, ups |-> NoUpd]      \* resetting a field that already holds its default: not generated
            ELSE [ok |-> TRUE, s |-> [s0 EXCEPT !.ditems[n][i] = <<k, dv>>], ups |-> <<Upd(n, k, old, dv)>>]
       ELSE LET s0 == Detach(s, old) IN
            [ok |-> TRUE, s |-> [s0 EXCEPT !.ditems[n] = RemoveIdx(@, i)], ups |-> <<Upd(n, k, old, MISSING)>>]
     ELSE IF ~OkTarget(s, n, vd) THEN [ok |-> FALSE, s |-> s, ups |-> NoUpd]
     ELSE IF i = 0 /\ Len(s.ditems[n]) >= MaxLen THEN [ok |-> FALSE, s |-> s, ups |-> NoUpd]
     ELSE LET s0 == Detach(s, old)
              f == Formalize(s0, n, k, vd, FALSE)
              s1 == IF i = 0 THEN [f.s EXCEPT !.ditems[n] = Append(@, <<k, f.v>>)]
                    ELSE [f.s EXCEPT !.ditems[n][i] = <<k, f.v>>]
          IN IF old = vd /\ vd \notin Opaque THEN [ok |-> TRUE, s |-> s, ups |-> NoUpd]  \* the same (pooled) leaf object: no update; an opaque leaf is always a new object
             ELSE [ok |-> f.ok, s |-> s1, ups |-> <<Upd(n, k, old, f.v)>>]

\* a write result may carry err: the call raises that error (the state in the result is what the call leaves behind)
ErrOf(w) == IF "err" \in DOMAIN w THEN w.err ELSE "none"
Rejected(s, e) == [ok |-> TRUE, s |-> s, ups |-> NoUpd, err |-> e]
SymVal(vd) == IsRef(vd) \/ vd \in {220, 221, 222, 223}
RECURSIVE PartialNode(_,_)
PartialNode(s, n) == \E kv \in Slot(s, n) : (s.kind[n] = "objb" /\ kv[1] = 1 /\ kv[2] = MISSING) \/ (IsRef(kv[2]) /\ PartialNode(s, kv[2]))
PartialVal(s, vd) == vd = 221 \/ (IsRef(vd) /\ PartialNode(s, vd))

\* --- write primitive of a list: idx is a 0-based position (>= len appends); ins = insertion
WriteL(s, n, idx, vd0) ==
  LET ins == IsIns(vd0)
      vd == IF ins THEN vd0 - INS ELSE vd0
      len == Len(s.litems[n])
      at == IF ins THEN ClampInsert(idx, len) ELSE IF idx >= len THEN len ELSE idx
      typed == s.kind[n] = "tlist"
  IN IF vd = MISSING /\ at >= len THEN [ok |-> TRUE, s |-> s, ups |-> NoUpd]
     ELSE IF ~OkTarget(s, n, vd) THEN [ok |-> FALSE, s |-> s, ups |-> NoUpd]
     \* partial values, and containers that carry a value spec of their own (refused as incompatible), in a typed list: not generated
     ELSE IF typed /\ vd # MISSING /\ (PartialVal(s, vd) \/ (IsRef(vd) /\ s.kind[vd] \in {"tlist", "tdict"}))
          THEN [ok |-> FALSE, s |-> s, ups |-> NoUpd]
     ELSE IF at < len /\ ~ins THEN
       LET old == s.litems[n][at + 1] IN
       IF old = vd /\ vd \notin Opaque THEN [ok |-> TRUE, s |-> s, ups |-> NoUpd]
       ELSE IF vd = MISSING THEN
            IF typed /\ len <= TMin THEN Rejected(s, "ValueError") ELSE
            LET s0 == Detach(s, old) IN
            [ok |-> TRUE, s |-> Reindex([s0 EXCEPT !.litems[n] = RemoveIdx(@, at + 1)], n),
             ups |-> <<Upd(n, LKey(at), old, MISSING)>>]
       ELSE IF typed /\ ~SymVal(vd) THEN Rejected(s, "TypeError")
       ELSE LET s0 == Detach(s, old)
                f == Formalize(s0, n, LKey(at), vd, FALSE)
            IN [ok |-> f.ok, s |-> [f.s EXCEPT !.litems[n][at + 1] = f.v], ups |-> <<Upd(n, LKey(at), old, f.v)>>]
     ELSE IF len >= MaxLen THEN [ok |-> FALSE, s |-> s, ups |-> NoUpd]
     ELSE IF typed /\ ~SymVal(vd) THEN Rejected(s, "TypeError")
     ELSE LET f == Formalize(s, n, LKey(at), vd, ins)
              s1 == [f.s EXCEPT !.litems[n] = InsertIdx(@, at + 1, f.v)]
          IN [ok |-> f.ok, s |-> Reindex(s1, n), ups |-> <<Upd(n, LKey(at), MISSING, f.v)>>]

\* every value of a batch must be storable at all (no node stored into its own subtree), also the values behind a rejected one:
\* the code looks at all of them before it raises
StripIns(v) == IF IsIns(v) THEN v - INS ELSE v
AllOkTargets(s, n, vals) == \A j \in 1..Len(vals) : OkTarget(s, n, StripIns(vals[j]))
NotGenerated(s) == [ok |-> FALSE, s |-> s, ups |-> NoUpd]
\* a sequence of list writes <<idx, vd>> applied left to right
RECURSIVE WriteLSeq(_,_,_)
WriteLSeq(s, n, ws) ==
  IF ws = <<>> THEN [ok |-> TRUE, s |-> s, ups |-> NoUpd]
  ELSE LET a == WriteL(s, n, ws[1][1], ws[1][2]) IN
       IF ErrOf(a) # "none" /\ ~AllOkTargets(s, n, [j \in 1..Len(ws) |-> ws[j][2]]) THEN NotGenerated(s)
       ELSE IF ~a.ok \/ ErrOf(a) # "none" THEN a            \* rejected at its first write: nothing has changed
       ELSE LET b == WriteLSeq(a.s, n, Tail(ws)) IN
            IF ErrOf(b) # "none" THEN [ok |-> FALSE, s |-> s, ups |-> NoUpd]      \* a batch rejected after its first write: not generated
            ELSE [ok |-> b.ok, s |-> b.s, ups |-> a.ups \o b.ups]
RECURSIVE AppendSeq(_,_,_)
AppendSeq(s, n, vds) ==
  IF vds = <<>> THEN [ok |-> TRUE, s |-> s, ups |-> NoUpd]
  ELSE LET a == WriteL(s, n, Len(s.litems[n]), vds[1]) IN
       IF ErrOf(a) # "none" /\ ~AllOkTargets(s, n, vds) THEN NotGenerated(s)
       ELSE IF ~a.ok \/ ErrOf(a) # "none" THEN a
       ELSE LET b == AppendSeq(a.s, n, Tail(vds)) IN
            IF ErrOf(b) # "none" THEN [ok |-> FALSE, s |-> s, ups |-> NoUpd]
            ELSE [ok |-> b.ok, s |-> b.s, ups |-> a.ups \o b.ups]
RECURSIVE WriteDSeq(_,_,_)
WriteDSeq(s, n, kvs) ==
  IF kvs = <<>> THEN [ok |-> TRUE, s |-> s, ups |-> NoUpd]
  ELSE LET a == WriteD(s, n, kvs[1][1], kvs[1][2]) IN
       IF ~a.ok THEN a
       ELSE LET b == WriteDSeq(a.s, n, Tail(kvs)) IN [ok |-> b.ok, s |-> b.s, ups |-> a.ups \o b.ups]

---------------------------------------------------------------------------
(* Change notification: the events one call delivers.                      *)
(* An event is [recv, ups] with ups a set of <<relative path, old, new>>.  *)
\* the receivers of update u: its target and the target's ancestors that subscribe
Receivers(s, u) == {r \in ({u.t} \cup Ancestors(s, u.t)) : s.subs[r]}
EventsOf(s, ups, self, notifyParents) ==
  LET recvs == UNION {Receivers(s, ups[i]) : i \in 1..Len(ups)}
      shown == IF notifyParents THEN recvs ELSE {r \in recvs : r = self \/ self \in Ancestors(s, r)}
  IN { [recv |-> r,
        ups |-> { <<Append(RelPath(s, r, ups[i].t), ups[i].k), ups[i].old, ups[i].new>> :
                   i \in {j \in 1..Len(ups) : r \in Receivers(s, ups[j])} }] : r \in shown }

(* Derived facts: what a fresh computation on the current content gives.                     *)
RECURSIVE HasPH(_,_)
HasPH(s, n) == \E kv \in Slot(s, n) : kv[2] = PH \/ (IsRef(kv[2]) /\ HasPH(s, kv[2]))
RECURSIVE MissingSet(_,_)
MissingSet(s, n) ==
  UNION { IF IsRef(kv[2]) THEN { <<kv[1]>> \o p : p \in MissingSet(s, kv[2]) }
          ELSE IF s.kind[n] = "objb" /\ kv[1] = 1 /\ kv[2] = MISSING THEN { <<kv[1]>> } ELSE {} : kv \in Slot(s, n) }
\* A schema dict (sd*) is compared with its defaults only where it is asked itself: as the root of the question, as the
\* typed member of an enclosing schema dict, or as a member of a plain dict / list (which ask their members).  A
\* schema-bound holder (object, schema dict, "tdict") reports the value of an untyped slot AS A WHOLE, and the
\* flattened report then lists every leaf below it -- down to the next object, which is asked again.
IsSD(s, n) == s.kind[n] \in {"sd3", "sd2", "sd1"}
IsRealObj(s, n) == s.kind[n] \in {"obj", "objb", "objc", "objd"}
SchemaBound(s, n) == IsObj(s, n) \/ s.kind[n] = "tdict"
RECURSIVE NDS(_,_,_)
NDS(s, n, plain) ==
  UNION { IF IsRef(kv[2])
          THEN LET c == kv[2]
                   cplain == ~IsRealObj(s, c) /\ (plain \/ (SchemaBound(s, n) /\ ~(s.kind[n] \in {"sd3", "sd2"} /\ kv[1] = 1)))
               IN { <<kv[1]>> \o p : p \in NDS(s, c, cplain) }
          ELSE IF kv[2] = MISSING \/ (~plain /\ IsObj(s, n) /\ kv[2] = DefaultOf(s.kind[n], kv[1])) THEN {}
          ELSE { <<kv[1]>> } : kv \in Slot(s, n) }
NonDefaultSet(s, n) == NDS(s, n, FALSE)
NoFacts == <<FALSE, {}, {}, FALSE>>
FactsOf(s, n) == <<TRUE, MissingSet(s, n), NonDefaultSet(s, n), HasPH(s, n)>>
AllFacts(s) == IF "facts" \in Acts THEN [n \in Nodes |-> IF s.kind[n] = "free" THEN NoFacts ELSE FactsOf(s, n)]
               ELSE [n \in Nodes |-> NoFacts]
\* The memo of a node is dropped when its content, or the content of a descendant, is written.
\* As coded at the pinned commit (Mirror) this happened only for the nodes a notification visited.
ChangedNodes(s) == {n \in Nodes : s.kind[n] # kind[n] \/ s.ditems[n] # ditems[n] \/ s.litems[n] # litems[n]}
MemoAfter(s, ev) ==
  LET touched == IF Mirror THEN UNION {{e.recv} \cup Ancestors(s, e.recv) : e \in ev}
                 ELSE UNION {({n} \cup Ancestors(s, n) \cup Ancestors(St, n)) : n \in ChangedNodes(s)}
  IN [n \in Nodes |-> IF n \in touched \/ s.kind[n] = "free" THEN NoFacts ELSE memo[n]]

Commit(s, o, ev) ==
  /\ kind' = s.kind /\ ditems' = s.ditems /\ litems' = s.litems /\ parent' = s.parent /\ pkey' = s.pkey
  /\ sealed' = s.sealed /\ accw' = s.accw /\ subs' = s.subs
  /\ out' = o /\ evts' = ev
  /\ memo' = MemoAfter(s, ev) /\ facts' = AllFacts(s)
  /\ UNCHANGED <<sstk, astk, nstk>>
Ok(ret) == [k |-> "ok", ret |-> ret]
Err(e) == [k |-> e, ret |-> 0]
Fail(e) == Commit(St, Err(e), {})
\* finish a mutating call whose writes produced `w`
Done(w, self, ret) ==
  /\ w.ok
  /\ IF ErrOf(w) # "none" THEN Commit(w.s, Err(ErrOf(w)), {})
     ELSE Commit(w.s, Ok(ret), IF NotifyOn /\ w.ups # NoUpd THEN EventsOf(w.s, w.ups, self, TRUE) ELSE {})

---------------------------------------------------------------------------
(* Actions: pg.Dict (and the attribute view of pg.Object)                  *)

DictSet(n, k, vd) ==                       \* d[k] = v   /  d.k = v  /  obj.x = v
  /\ act' = <<"DictSet", n, k, vd>>
  /\ "dict" \in Acts /\ IsDictLike(St, n) /\ (IsObj(St, n) => k \in ObjKeys)
  /\ IF TreatSealed(St, n) \/ ~AccW(St, n) THEN Fail("WPE")
     ELSE Done(WriteD(St, n, k, vd), n, 0)

DictDel(n, k) ==                           \* del d[k]
  /\ act' = <<"DictDel", n, k>>
  /\ "dict" \in Acts /\ IsPlainDict(St, n)
  /\ IF TreatSealed(St, n) \/ ~AccW(St, n) THEN Fail("WPE")
     ELSE IF KeyIdx(St, n, k) = 0 THEN Fail("KeyError")
     ELSE Done(WriteD(St, n, k, MISSING), n, 0)

DictPop(n, k, hasDefault) ==               \* d.pop(k[, None])
  /\ act' = <<"DictPop", n, k, hasDefault>>
  /\ "dict" \in Acts /\ IsPlainDict(St, n)
  /\ LET i == KeyIdx(St, n, k) IN
     IF i = 0 THEN (IF hasDefault THEN Commit(St, Ok(PNONE), {}) ELSE Fail("KeyError"))
     ELSE IF TreatSealed(St, n) THEN Fail("WPE")
     ELSE Done(WriteD(St, n, k, MISSING), n, ditems[n][i][2])

DictPopItem(n) ==                          \* d.popitem()
  /\ act' = <<"DictPopItem", n>>
  /\ "dict" \in Acts /\ IsPlainDict(St, n)
  /\ IF kind[n] = "tdict" THEN Fail("ValueError")           \* popitem() is not offered on a dict with a value spec
     ELSE IF TreatSealed(St, n) THEN Fail("WPE")
     ELSE IF ditems[n] = <<>> THEN Fail("KeyError")
     ELSE LET kv == ditems[n][Len(ditems[n])] IN Done(WriteD(St, n, kv[1], MISSING), n, kv[2])

RECURSIVE ClearD(_,_)
ClearD(s, n) == IF s.ditems[n] = <<>> THEN [ok |-> TRUE, s |-> s, ups |-> NoUpd]
                ELSE LET a == WriteD(s, n, s.ditems[n][1][1], MISSING)
                         b == ClearD(a.s, n)
                     IN [ok |-> TRUE, s |-> b.s, ups |-> a.ups \o b.ups]
DictClear(n) ==                            \* d.clear()
  /\ act' = <<"DictClear", n>>
  /\ "dict" \in Acts /\ IsPlainDict(St, n)
  /\ IF TreatSealed(St, n) THEN Fail("WPE") ELSE Done(ClearD(St, n), n, 0)

DictSetDefault(n, k, vd) ==                \* d.setdefault(k, v)
  /\ act' = <<"DictSetDefault", n, k, vd>>
  /\ "dict" \in Acts /\ IsPlainDict(St, n) /\ ~IsRef(vd)
  /\ (TreatSealed(St, n) \/ AccW(St, n) \/ KeyIdx(St, n, k) # 0)   \* as for remove()
  /\ LET i == KeyIdx(St, n, k) IN
     IF i # 0 THEN Commit(St, Ok(ditems[n][i][2]), {})
     ELSE IF TreatSealed(St, n) \/ ~AccW(St, n) THEN Fail("WPE")
     ELSE Done(WriteD(St, n, k, vd), n, vd)

DictUpdate(n, kvs, inplaceOr) ==           \* d.update({..})   /   d |= {..}
  /\ act' = <<"DictUpdate", n, kvs, inplaceOr>>
  /\ (IF inplaceOr THEN "inplace" ELSE "dict") \in Acts /\ IsPlainDict(St, n)
  /\ IF TreatSealed(St, n) THEN Fail("WPE") ELSE Done(WriteDSeq(St, n, kvs), n, 0)

---------------------------------------------------------------------------
(* Actions: pg.List                                                        *)

ListSet(n, i, vd) ==                       \* l[i] = v
  /\ act' = <<"ListSet", n, i, vd>>
  /\ "list" \in Acts /\ IsList(St, n) /\ vd # MISSING
  /\ IF TreatSealed(St, n) \/ ~AccW(St, n) THEN Fail("WPE")
     ELSE LET j == NormIndex(i, Len(litems[n])) IN
          IF j < 0 THEN Fail("IndexError") ELSE Done(WriteL(St, n, j, vd), n, 0)

ListDel(n, i) ==                           \* del l[i]
  /\ act' = <<"ListDel", n, i>>
  /\ "list" \in Acts /\ IsList(St, n)
  /\ IF TreatSealed(St, n) \/ ~AccW(St, n) THEN Fail("WPE")
     ELSE LET j == NormIndex(i, Len(litems[n])) IN
          IF j < 0 THEN Fail("IndexError")
          ELSE IF Mirror THEN      \* as coded: the removed child keeps its parent link
               Commit(Reindex([St EXCEPT !.litems[n] = RemoveIdx(@, j + 1)], n), Ok(0), {})
          ELSE Done(WriteL(St, n, j, MISSING), n, 0)

ListAppend(n, vd) ==                       \* l.append(v)
  /\ act' = <<"ListAppend", n, vd>>
  /\ "list" \in Acts /\ IsList(St, n) /\ vd # MISSING
  /\ IF TreatSealed(St, n) THEN Fail("WPE") ELSE Done(WriteL(St, n, Len(litems[n]), vd), n, 0)

ListInsert(n, i, vd) ==                    \* l.insert(i, v)
  /\ act' = <<"ListInsert", n, i, vd>>
  /\ "list" \in Acts /\ IsList(St, n) /\ vd # MISSING
  /\ IF TreatSealed(St, n) THEN Fail("WPE") ELSE Done(WriteL(St, n, i, INS + vd), n, 0)

ListExtend(n, vds, inplaceAdd) ==          \* l.extend([..])   /   l += [..]
  /\ act' = <<"ListExtend", n, vds, inplaceAdd>>
  /\ (IF inplaceAdd THEN "inplace" ELSE "list") \in Acts /\ IsList(St, n)
  /\ IF TreatSealed(St, n) THEN Fail("WPE") ELSE Done(AppendSeq(St, n, vds), n, 0)

ListPop(n, i) ==                           \* l.pop(i)
  /\ act' = <<"ListPop", n, i>>
  /\ "list" \in Acts /\ IsList(St, n)
  /\ LET j == NormIndex(i, Len(litems[n])) IN
     IF j < 0 THEN Fail("IndexError")
     ELSE IF TreatSealed(St, n) THEN Fail("WPE")
     ELSE Done(WriteL(St, n, j, MISSING), n, litems[n][j + 1])

ListRemove(n, v) ==                        \* l.remove(leaf)
  /\ act' = <<"ListRemove", n, v>>
  /\ "list" \in Acts /\ IsList(St, n) /\ ~IsRef(v)
  /\ (TreatSealed(St, n) \/ AccW(St, n))       \* a container *method* under disabled accessors is a don't-care: not generated
  /\ LET p == FirstPos(litems[n], v) IN
     IF p = 0 THEN Fail("ValueError")
     ELSE IF TreatSealed(St, n) \/ ~AccW(St, n) THEN Fail("WPE")
     ELSE Done(WriteL(St, n, p - 1, MISSING), n, 0)

RECURSIVE ClearL(_,_)
ClearL(s, n) == IF s.litems[n] = <<>> THEN [ok |-> TRUE, s |-> s, ups |-> NoUpd]
                ELSE LET a == WriteL(s, n, Len(s.litems[n]) - 1, MISSING)
                         b == ClearL(a.s, n)
                     IN IF ErrOf(a) # "none" THEN a
                        ELSE IF ErrOf(b) # "none" THEN [ok |-> FALSE, s |-> s, ups |-> NoUpd]
                        ELSE [ok |-> b.ok, s |-> b.s, ups |-> b.ups \o a.ups]
ListClear(n) ==                            \* l.clear()
  /\ act' = <<"ListClear", n>>
  /\ "list" \in Acts /\ IsList(St, n)
  /\ IF TreatSealed(St, n) THEN Fail("WPE") ELSE Done(ClearL(St, n), n, 0)

ListReverse(n) ==                          \* l.reverse()
  /\ act' = <<"ListReverse", n>>
  /\ "perm" \in Acts /\ IsList(St, n)
  /\ IF TreatSealed(St, n) THEN Fail("WPE")
     ELSE LET s1 == [St EXCEPT !.litems[n] = RevSeq(@)] IN
          Commit(IF Mirror THEN s1 ELSE Reindex(s1, n), Ok(0), {})

ListSort(n) ==                             \* l.sort()  (leaf-only lists; others raise TypeError like list)
  /\ act' = <<"ListSort", n>>
  /\ "perm" \in Acts /\ IsList(St, n) /\ \A i \in 1..Len(litems[n]) : litems[n][i] \in 100..149
  /\ IF TreatSealed(St, n) THEN Fail("WPE")
     ELSE Commit([St EXCEPT !.litems[n] = SortInts(@)], Ok(0), {})

\* l *= k : k <= 0 clears, k >= 2 appends (k-1) more copies of the current elements
ListIMul(n, k) ==
  /\ act' = <<"ListIMul", n, k>>
  /\ "inplace" \in Acts /\ IsList(St, n)
  /\ IF TreatSealed(St, n) THEN Fail("WPE")
     ELSE IF k <= 0 THEN Done(ClearL(St, n), n, 0)
     ELSE /\ Len(litems[n]) * k <= MaxLen
          /\ Done(AppendSeq(St, n, Repeat(litems[n], k - 1)), n, 0)

\* l[a:b:c] = vds.  Positions come from CPython's slice.indices; with step 1 the slice is
\* replaced (elements removed are detached, extra values inserted), otherwise sizes must agree.
ListSetSlice(n, a, b, c, vds) ==
  /\ act' = <<"ListSetSlice", n, a, b, c, vds>>
  /\ "slice" \in Acts /\ IsList(St, n)
  /\ IF TreatSealed(St, n) \/ ~AccW(St, n) THEN Fail("WPE")
     ELSE LET pos == SlicePositions(a, b, c, Len(litems[n]))
              st == SliceIndices(a, b, c, Len(litems[n])) IN
       IF st[3] = 1 THEN
         LET start == st[1]
             cnt == Len(pos)
             common == PMin(cnt, Len(vds))
             repl == [j \in 1..common |-> <<start + j - 1, vds[j]>>]
             \* surplus old elements are removed from the back so that indices stay valid
             dels == [j \in 1..(cnt - common) |-> <<start + cnt - j, MISSING>>]
             inss == [j \in 1..(Len(vds) - common) |-> <<start + common + j - 1, INS + vds[common + j]>>]
         IN Done(WriteLSeq(St, n, repl \o dels \o inss), n, 0)
       ELSE IF Len(pos) # Len(vds) THEN Fail("ValueError")
       ELSE Done(WriteLSeq(St, n, [j \in 1..Len(pos) |-> <<pos[j], vds[j]>>]), n, 0)

\* del l[a:b:c]
ListDelSlice(n, a, b, c) ==
  /\ act' = <<"ListDelSlice", n, a, b, c>>
  /\ "slice" \in Acts /\ IsList(St, n)
  /\ IF TreatSealed(St, n) \/ ~AccW(St, n) THEN Fail("WPE")
     ELSE LET pos == SlicePositions(a, b, c, Len(litems[n]))
              desc == SortInts(pos)            \* ascending
              ws == [j \in 1..Len(desc) |-> <<desc[Len(desc) + 1 - j], MISSING>>]   \* delete from the back
          IN Done(WriteLSeq(St, n, ws), n, 0)

---------------------------------------------------------------------------
(* rebind: batched writes addressed by paths relative to n                 *)
\* pvs : sequence of <<path, vd>>, path a non-empty sequence of keys (dict key or LKey(i))
\* A list applies its direct entries from the highest index down, and reports them lowest first.
RECURSIVE SortPV(_)
SortPV(pvs) ==  \* descending by first key (only used for list-rooted rebinds with length-1 paths)
  IF Len(pvs) <= 1 THEN pvs
  ELSE LET mx == CHOOSE i \in 1..Len(pvs) : \A j \in 1..Len(pvs) : pvs[i][1][1] >= pvs[j][1][1]
       IN <<pvs[mx]>> \o SortPV(RemoveIdx(pvs, mx))

RebindOne(s, n, path, vd) ==    \* [ok, s, ups, err]
  LET holder == Lookup(s, n, SubSeq(path, 1, Len(path) - 1))
      key == path[Len(path)]
  IN IF Len(path) = 2 /\ (\E kv \in Slot(s, n) : kv[1] = path[1] /\ kv[2] \in Opaque)
     THEN [ok |-> FALSE, s |-> s, ups |-> NoUpd, err |-> "none"]      \* paths into a placeholder object: not generated
     ELSE IF holder = NULL \/ ~IsRef(holder) THEN [ok |-> TRUE, s |-> s, ups |-> NoUpd, err |-> "KeyError"]
     ELSE IF TreatSealed(s, holder) THEN [ok |-> TRUE, s |-> s, ups |-> NoUpd, err |-> "WPE"]
     ELSE IF IsDictLike(s, holder) THEN
          IF key >= 1000 THEN [ok |-> FALSE, s |-> s, ups |-> NoUpd, err |-> "none"]   \* int keys of dicts are not generated
          ELSE IF IsObj(s, holder) /\ key \notin ObjKeys
          THEN [ok |-> TRUE, s |-> s, ups |-> NoUpd, err |-> "KeyError"]
          ELSE LET w == WriteD(s, holder, key, IF IsIns(vd) THEN vd - INS ELSE vd) IN
               [ok |-> w.ok /\ ~IsIns(vd), s |-> w.s, ups |-> w.ups, err |-> "none"]
     ELSE IF key < 1000 THEN [ok |-> FALSE, s |-> s, ups |-> NoUpd, err |-> "none"]
     ELSE LET w == WriteL(s, holder, key - 1000, vd) IN [ok |-> w.ok, s |-> w.s, ups |-> w.ups, err |-> ErrOf(w)]

RECURSIVE RebindSeq(_,_,_)
RebindSeq(s, n, pvs) ==
  IF pvs = <<>> THEN [ok |-> TRUE, s |-> s, ups |-> NoUpd, err |-> "none"]
  ELSE LET a == RebindOne(s, n, pvs[1][1], pvs[1][2]) IN
       IF ~a.ok \/ a.err # "none" THEN a
       ELSE LET b == RebindSeq(a.s, n, Tail(pvs)) IN
            [ok |-> b.ok, s |-> b.s, ups |-> a.ups \o b.ups, err |-> b.err]

Rebind(n, pvs, notifyParents, skip) ==
  /\ act' = <<"Rebind", n, pvs, notifyParents, skip>>
  /\ "rebind" \in Acts /\ kind[n] # "free"
  /\ IF IsObj(St, n) /\ TreatSealed(St, n) THEN Fail("WPE")
     ELSE LET ordered == IF IsList(St, n) THEN SortPV(pvs) ELSE pvs
              w == RebindSeq(St, n, ordered)
          IN /\ w.ok
             \* two entries that end up writing the same location (an index past the end appends)
             \* have no well-defined old/new value: not generated
             /\ \A i, j \in 1..Len(w.ups) : i # j => <<w.ups[i].t, w.ups[i].k>> # <<w.ups[j].t, w.ups[j].k>>
             /\ IF w.err # "none"
                THEN \* a failing element aborts the batch; earlier elements stay applied, nobody is notified
                     Commit(w.s, Err(w.err), {})
                ELSE Commit(w.s, Ok(0),
                            IF NotifyOn /\ ~skip /\ w.ups # NoUpd THEN EventsOf(w.s, w.ups, n, notifyParents) ELSE {})

---------------------------------------------------------------------------
(* copying, sealing, scopes, handles                                       *)

\* Constructors called with values the user already holds: pg.Dict(a=v1, b=v2) / pg.List([v1, v2]) / A(x=v1, y=v2).
\* Each argument goes through relocate-or-copy like any other write, so a node given twice is stored once as itself
\* and once as a copy, and an attached node is copied.
Construct(k, vds) ==
  /\ act' = <<"Construct", k, vds>>
  /\ "construct" \in Acts /\ FreeSet(St) # {}
  /\ LET r == MinOf(FreeSet(St))
         s0 == IF k = "obj" THEN [NewNode(St, r, "obj", NULL, NULL) EXCEPT !.ditems[r] = << <<1, PNONE>>, <<2, PNONE>> >>]
               ELSE NewNode(St, r, k, NULL, NULL)
         w == IF k \in {"list", "tlist"} THEN AppendSeq(s0, r, vds)
              ELSE WriteDSeq(s0, r, [i \in 1..Len(vds) |-> <<i, vds[i]>>])
     IN /\ \A i \in 1..Len(vds) : vds[i] # PNONE
        /\ w.ok /\ ErrOf(w) = "none"
        /\ Commit(w.s, Ok(r), {})

Clone(n, deep) ==                          \* n.clone(deep) / copy.copy / copy.deepcopy
  /\ act' = <<"Clone", n, deep>>
  /\ "clone" \in Acts /\ kind[n] # "free"
  /\ Cardinality(FreeSet(St)) >= Cardinality(Desc(St, n))
  /\ LET c == CloneInto(St, n) IN Commit(c.s, Ok(c.root), {})

JsonRoundTrip(n) ==                        \* pg.from_json(pg.to_json(n)): a fresh tree with default flags
  /\ act' = <<"JsonRoundTrip", n>>
  /\ "json" \in Acts /\ kind[n] # "free"
  /\ Cardinality(FreeSet(St)) >= Cardinality(Desc(St, n))
  /\ LET c == CloneInto(St, n)
         fresh == Desc(c.s, c.root)
         s1 == [c.s EXCEPT !.kind = [m \in Nodes |-> IF m \in fresh /\ c.s.kind[m] \in {"tdict", "sd3", "sd2", "sd1"} THEN "dict"
                                                      ELSE IF m \in fresh /\ c.s.kind[m] = "tlist" THEN "list" ELSE c.s.kind[m]],
                           \* a loaded tree carries the class defaults: a D is born sealed, and its constructor seals what it holds
                           !.sealed = [m \in Nodes |-> IF m \in fresh THEN (\E a \in ({m} \cup Ancestors(c.s, m)) : c.s.kind[a] = "objd")
                                                        ELSE c.s.sealed[m]],
                           !.accw = [m \in Nodes |-> IF m \in fresh THEN TRUE ELSE c.s.accw[m]],
                           !.subs = [m \in Nodes |-> IF m \in fresh THEN c.s.kind[m] \in {"obj", "objb", "objc", "objd"} ELSE c.s.subs[m]]]
     IN Commit(s1, Ok(c.root), {})

Seal(n, b) ==                              \* n.seal(b): recursive
  /\ act' = <<"Seal", n, b>>
  /\ "flags" \in Acts /\ kind[n] # "free"
  /\ LET RECURSIVE SealRec(_,_)
         SealRec(s, m) == IF Mirror /\ s.sealed[m] = b THEN s   \* as coded: stops where the flag already equals b
                          ELSE LET kids == ChildrenOf(s, m)
                                   RECURSIVE Fold(_,_)
                                   Fold(ss, todo) == IF todo = {} THEN ss
                                                     ELSE LET c == MinOf(todo) IN Fold(SealRec(ss, c), todo \ {c})
                               IN [Fold(s, kids) EXCEPT !.sealed[m] = b]
     IN Commit(SealRec(St, n), Ok(0), {})

SetAccW(n, b) ==                           \* n.set_accessor_writable(b) (this node only)
  /\ act' = <<"SetAccW", n, b>>
  /\ "flags" \in Acts /\ kind[n] \in {"dict", "tdict", "list", "tlist"}
  /\ accw[n] # b
  /\ Commit([St EXCEPT !.accw[n] = b], Ok(0), {})

Forget(n) ==                               \* the user drops the handle of a detached tree
  /\ act' = <<"Forget", n>>
  /\ "forget" \in Acts /\ kind[n] # "free" /\ parent[n] = NULL /\ n # 1
  /\ LET gone == Desc(St, n) IN
     Commit([St EXCEPT !.kind = [m \in Nodes |-> IF m \in gone THEN "free" ELSE kind[m]],
                       !.ditems = [m \in Nodes |-> IF m \in gone THEN <<>> ELSE ditems[m]],
                       !.litems = [m \in Nodes |-> IF m \in gone THEN <<>> ELSE litems[m]],
                       !.parent = [m \in Nodes |-> IF m \in gone THEN NULL ELSE parent[m]],
                       !.pkey = [m \in Nodes |-> IF m \in gone THEN NULL ELSE pkey[m]],
                       !.sealed = [m \in Nodes |-> IF m \in gone THEN FALSE ELSE sealed[m]],
                       !.accw = [m \in Nodes |-> IF m \in gone THEN TRUE ELSE accw[m]],
                       !.subs = [m \in Nodes |-> IF m \in gone THEN FALSE ELSE subs[m]]],
            Ok(0), {})

ReadFacts(n) ==                            \* is_partial / sym_missing() / sym_nondefault() / sym_puresymbolic on n: fills the memos below n
  /\ act' = <<"ReadFacts", n>>
  /\ "facts" \in Acts /\ kind[n] # "free" /\ ~memo[n][1]
  /\ memo' = [m \in Nodes |-> IF m \in Desc(St, n) THEN FactsOf(St, m) ELSE memo[m]]
  /\ out' = Ok(0) /\ evts' = {} /\ facts' = AllFacts(St)
  /\ UNCHANGED <<tree, sstk, astk, nstk>>

MaxScope == 2
EnterSealed(a) == /\ act' = <<"EnterSealed", a>> /\ "scope" \in Acts /\ Len(sstk) < MaxScope /\ sstk' = Append(sstk, a)
                  /\ out' = Ok(0) /\ evts' = {} /\ UNCHANGED <<tree, astk, nstk, memo, facts>>
ExitSealed ==     /\ act' = <<"ExitSealed">> /\ "scope" \in Acts /\ sstk # <<>> /\ sstk' = SubSeq(sstk, 1, Len(sstk) - 1)
                  /\ out' = Ok(0) /\ evts' = {} /\ UNCHANGED <<tree, astk, nstk, memo, facts>>
EnterAccW(a) ==   /\ act' = <<"EnterAccW", a>> /\ "scope" \in Acts /\ Len(astk) < MaxScope /\ astk' = Append(astk, a)
                  /\ out' = Ok(0) /\ evts' = {} /\ UNCHANGED <<tree, sstk, nstk, memo, facts>>
ExitAccW ==       /\ act' = <<"ExitAccW">> /\ "scope" \in Acts /\ astk # <<>> /\ astk' = SubSeq(astk, 1, Len(astk) - 1)
                  /\ out' = Ok(0) /\ evts' = {} /\ UNCHANGED <<tree, sstk, nstk, memo, facts>>
EnterNotify(b) == /\ act' = <<"EnterNotify", b>> /\ "nscope" \in Acts /\ Len(nstk) < MaxScope /\ nstk' = Append(nstk, b)
                  /\ out' = Ok(0) /\ evts' = {} /\ UNCHANGED <<tree, sstk, astk, memo, facts>>
ExitNotify ==     /\ act' = <<"ExitNotify">> /\ "nscope" \in Acts /\ nstk # <<>> /\ nstk' = SubSeq(nstk, 1, Len(nstk) - 1)
                  /\ out' = Ok(0) /\ evts' = {} /\ UNCHANGED <<tree, sstk, astk, memo, facts>>

---------------------------------------------------------------------------
VD == Leafs \cup Shapes \cup {m \in Nodes : kind[m] # "free"}
Idx == (0 - MaxLen - 1)..(MaxLen + 1)
SeqsUpTo(S, k) == UNION {[1..j -> S] : j \in 0..k}
Bnd == {NONE, -2, -1, 0, 1, 2}
Steps == {NONE, -1, 2}
SmallVD == Leafs \cup (Shapes \cap {200})
KVSeqs == {kvs \in (SeqsUpTo(Keys \X SmallVD, 2) \ {<<>>}) : \A i, j \in 1..Len(kvs) : i # j => kvs[i][1] # kvs[j][1]}
\* rebind argument space: one or two entries; paths of length one, or one path of length two
RKeys == Keys \cup {LKey(i) : i \in 0..MaxLen}
RVals == Leafs \cup (Shapes \cap {200, 210}) \cup {m \in Nodes : kind[m] # "free"} \cup {MISSING} \cup {INS + x : x \in Leafs}
RebindArgs == { << <<p, v>> >> : p \in {<<k>> : k \in RKeys}, v \in RVals }
        \cup { << <<p, v>> >> : p \in {<<k1, k2>> : k1 \in RKeys, k2 \in RKeys}, v \in Leafs \cup {MISSING} }
        \cup { pv \in { << <<<<k1>>, v1>>, <<<<k2>>, v2>> >> : k1 \in RKeys, k2 \in RKeys, v1 \in Leafs \cup {INS + x : x \in Leafs},
                                                               v2 \in Leafs \cup {MISSING} } : pv[1][1] # pv[2][1] }

\* initial-root configurations (cfg files cannot write sequences)
IK_DictList == <<"dict", "list">>
IK_Dict == <<"dict">>
IK_List == <<"list">>
IK_Obj == <<"obj">>
IK_ObjList == <<"obj", "list">>
IK_ObjbDict == <<"objb", "dict">>
IK_TDictList == <<"tdict", "list">>

IK_TListDict == <<"tlist", "dict">>
IK_ObjcDict == <<"objc", "dict">>
IK_Sd3Dict == <<"sd3", "dict">>
\* a typed list is never empty: an initial root of kind "tlist" starts with one A() member, which takes the id
\* Len(InitKinds) + (id of the list); an initial root of kind "objc" (class C) holds its default A() under m the same way
InitTL(n) == n <= Len(InitKinds) /\ InitKinds[n] = "tlist"
InitOC(n) == n <= Len(InitKinds) /\ InitKinds[n] = "objc"
InitTLChild(n) == n > Len(InitKinds) /\ n <= 2 * Len(InitKinds) /\ InitKinds[n - Len(InitKinds)] \in {"tlist", "objc"}
\* an initial root of kind "sd3" comes with its two nested levels: ids Len(InitKinds) + n (sd2) and 2 * Len(InitKinds) + n (sd1)
InitSD(n) == n <= Len(InitKinds) /\ InitKinds[n] = "sd3"
InitSD2(n) == n > Len(InitKinds) /\ n <= 2 * Len(InitKinds) /\ InitKinds[n - Len(InitKinds)] = "sd3"
InitSD1(n) == n > 2 * Len(InitKinds) /\ n <= 3 * Len(InitKinds) /\ InitKinds[n - 2 * Len(InitKinds)] = "sd3"
Init ==
  /\ kind = [n \in Nodes |-> IF n <= Len(InitKinds) THEN InitKinds[n] ELSE IF InitTLChild(n) THEN "obj"
                            ELSE IF InitSD2(n) THEN "sd2" ELSE IF InitSD1(n) THEN "sd1" ELSE "free"]
  /\ ditems = [n \in Nodes |-> IF (n <= Len(InitKinds) /\ InitKinds[n] \in {"obj", "objd"}) \/ InitTLChild(n) \/ InitSD1(n) THEN << <<1, PNONE>>, <<2, PNONE>> >>
                              ELSE IF InitSD(n) \/ InitSD2(n) THEN << <<1, Len(InitKinds) + n>>, <<2, PNONE>> >>
                              ELSE IF n <= Len(InitKinds) /\ InitKinds[n] = "objb" THEN << <<1, MISSING>>, <<2, PNONE>> >>
                              ELSE IF InitOC(n) THEN << <<1, Len(InitKinds) + n>>, <<2, PNONE>> >> ELSE <<>>]
  /\ litems = [n \in Nodes |-> IF InitTL(n) THEN <<Len(InitKinds) + n>> ELSE <<>>]
  /\ parent = [n \in Nodes |-> IF InitTLChild(n) \/ InitSD2(n) \/ InitSD1(n) THEN n - Len(InitKinds) ELSE NULL]
  /\ pkey = [n \in Nodes |-> IF InitTLChild(n) THEN (IF InitKinds[n - Len(InitKinds)] = "tlist" THEN LKey(0) ELSE 1)
                            ELSE IF InitSD2(n) \/ InitSD1(n) THEN 1 ELSE NULL]
  /\ sealed = [n \in Nodes |-> n <= Len(InitKinds) /\ InitKinds[n] = "objd"]
  /\ accw = [n \in Nodes |-> TRUE]
  /\ subs = [n \in Nodes |-> n <= Len(InitKinds) \/ InitTLChild(n)]      \* the harness gives every root it creates a callback
  /\ sstk = <<>> /\ astk = <<>> /\ nstk = <<>>
  /\ out = Ok(0) /\ evts = {} /\ act = <<"Init">>
  /\ memo = [n \in Nodes |-> NoFacts]
  /\ facts = AllFacts(St)

\* NOTE: TLC evaluates constant-level expressions once per run; mentioning a variable keeps RandomSubset from being
\* folded into one fixed choice for the whole simulation when S is a constant set (BOOLEAN, Keys, slice bounds ...)
P(S) == IF SimK = 0 \/ S = {} THEN S ELSE RandomSubset(PMin(SimK, Cardinality(S)), IF act = <<>> THEN {} ELSE S)
\* value descriptors: in simulation, nodes the user still holds after they were removed from a tree (detached roots other
\* than the initial ones) are offered in addition, so that remove-then-reinsert histories are not left to chance
Reusable == {m \in Nodes : kind[m] # "free" /\ parent[m] = NULL /\ m > Len(InitKinds)}
PVD == P(VD) \cup P(Reusable)
\* family / kind guards come before the parameter quantifiers so that TLC does not enumerate
\* argument tuples for actions that cannot fire at n
Has(f) == f \in Acts
NextDict(n) ==
  /\ IsDictLike(St, n)
  /\ \/ Has("dict") /\ \E k \in P(Keys), vd \in (P(VD \cup {MISSING}) \cup P(Reusable)) : DictSet(n, k, vd)
     \/ Has("dict") /\ IsPlainDict(St, n) /\
          (\/ \E k \in P(Keys) : DictDel(n, k) \/ \E d \in P(BOOLEAN) : DictPop(n, k, d)
           \/ DictPopItem(n) \/ DictClear(n)
           \/ \E k \in P(Keys), vd \in P(Leafs) : DictSetDefault(n, k, vd)
           \/ \E kvs \in P(KVSeqs) : DictUpdate(n, kvs, FALSE))
     \/ Has("inplace") /\ IsPlainDict(St, n) /\ \E kvs \in P(KVSeqs) : DictUpdate(n, kvs, TRUE)
NextList(n) ==
  /\ IsList(St, n)
  /\ \/ Has("list") /\
          (\/ \E i \in P(Idx), vd \in PVD : ListSet(n, i, vd) \/ ListInsert(n, i, vd)
           \/ \E i \in P(Idx) : ListDel(n, i) \/ ListPop(n, i)
           \/ \E vd \in PVD : ListAppend(n, vd)
           \/ \E vds \in P((SeqsUpTo(VD, 2)) \ {<<>>}) : ListExtend(n, vds, FALSE)
           \/ \E v \in P(Leafs) : ListRemove(n, v)
           \/ ListClear(n))
     \/ Has("perm") /\ (ListReverse(n) \/ ListSort(n))
     \/ Has("inplace") /\ (\/ \E vds \in P((SeqsUpTo(VD, 2)) \ {<<>>}) : ListExtend(n, vds, TRUE)
                            \/ \E k \in P({0, 2, 3}) : ListIMul(n, k))
     \/ Has("slice") /\ \E a \in P(Bnd), b \in P(Bnd), c \in P(Steps) :
                          (ListDelSlice(n, a, b, c) \/ \E vds \in P(SeqsUpTo(SmallVD, 2)) : ListSetSlice(n, a, b, c, vds))
NextAny(n) ==
  /\ kind[n] # "free"
  /\ \/ Has("rebind") /\ \E pvs \in P(RebindArgs), np \in P(BOOLEAN), sk \in P(BOOLEAN) : Rebind(n, pvs, np, sk)
     \/ Has("clone") /\ \E dp \in P(BOOLEAN) : Clone(n, dp)
     \/ Has("json") /\ JsonRoundTrip(n)
     \/ Has("flags") /\ \E b \in P(BOOLEAN) : Seal(n, b) \/ SetAccW(n, b)
     \/ Has("forget") /\ Forget(n)
     \/ Has("facts") /\ ReadFacts(n)
CKinds == IF "typed" \in Acts THEN {"dict", "list", "obj", "tlist"} ELSE {"dict", "list", "obj"}
NextConstruct ==
  Has("construct") /\ \E k \in P(CKinds), vds \in P(SeqsUpTo(VD, 2) \ {<<>>}) : Construct(k, vds)
NextScope ==
  \/ Has("scope") /\ (\/ \E a \in P({"T", "F", "N"}) : EnterSealed(a) \/ EnterAccW(a)
                       \/ ExitSealed \/ ExitAccW)
  \/ Has("nscope") /\ (ExitNotify \/ \E b \in P(BOOLEAN) : EnterNotify(b))
Next == (\E n \in Nodes : NextDict(n) \/ NextList(n) \/ NextAny(n)) \/ NextScope \/ NextConstruct

Spec == Init /\ [][Next]_vars

LevelBound == TLCGet("level") <= MaxLevel

\* "One implementation test per transition": start from states exported by an earlier exhaustive run
\* (JSON array of records with the tree variables and scope stacks) and take single steps.
InitStates == JsonDeserialize(IOEnv.INIT_FILE)
InitFrom ==
  \E i \in 1..Len(InitStates) :
    LET z == InitStates[i]
        m == Len(z.kind)        \* the exported states may come from a configuration with fewer node ids
    IN
    /\ kind = [n \in Nodes |-> IF n <= m THEN z.kind[n] ELSE "free"]
    /\ ditems = [n \in Nodes |-> IF n <= m THEN z.ditems[n] ELSE <<>>]
    /\ litems = [n \in Nodes |-> IF n <= m THEN z.litems[n] ELSE <<>>]
    /\ parent = [n \in Nodes |-> IF n <= m THEN z.parent[n] ELSE NULL]
    /\ pkey = [n \in Nodes |-> IF n <= m THEN z.pkey[n] ELSE NULL]
    /\ sealed = [n \in Nodes |-> IF n <= m THEN z.sealed[n] ELSE FALSE]
    /\ accw = [n \in Nodes |-> IF n <= m THEN z.accw[n] ELSE TRUE]
    /\ subs = [n \in Nodes |-> IF n <= m THEN z.subs[n] ELSE FALSE]
    /\ sstk = z.sstk /\ astk = z.astk /\ nstk = z.nstk
    /\ out = Ok(0) /\ evts = {} /\ act = <<"From", i>>
    /\ memo = [n \in Nodes |-> NoFacts]
    /\ facts = AllFacts(St)
StepNext == act[1] = "From" /\ Next          \* successors are terminal: exactly one step per start state
SpecFrom == InitFrom /\ [][StepNext]_vars

\* Re-running one recorded history (./check Cxx --replay FILE): the next call is the one the script names.
Script == JsonDeserialize(IOEnv.SCRIPT_FILE)
ScriptNext == /\ TLCGet("level") <= Len(Script)
              /\ Next
              /\ act' = Script[TLCGet("level")]
SpecScript == Init /\ [][ScriptNext]_vars

---------------------------------------------------------------------------
(* Properties                                                              *)
(* C01: every stored node's parent link and key agree with where it is stored; a node is
   stored in at most one place; a node with a parent link is really stored there.          *)
TreeOK == \A n \in Alive(St) : \A kv \in Slot(St, n) :
            IsRef(kv[2]) => (kind[kv[2]] # "free" /\ parent[kv[2]] = n /\ pkey[kv[2]] = kv[1])
Places(m) == UNION { {<<n, kv[1]>> : kv \in {x \in Slot(St, n) : x[2] = m}} : n \in Alive(St) }
           \* distinct positions: a list may hold the same node at two indices
OnePlace == \A m \in Alive(St) :
              /\ Cardinality(Places(m)) <= 1
              /\ \A n \in Alive(St) : IsList(St, n) =>
                   Cardinality({i \in 1..Len(litems[n]) : litems[n][i] = m}) <= 1
DetachedOK == \A m \in Alive(St) : (parent[m] # NULL) => <<parent[m], pkey[m]>> \in Places(m)
LookupOK == \A m \in Alive(St) : Lookup(St, RootOf(St, m), RelPath(St, RootOf(St, m), m)) = m
NoDangling == \A n \in Alive(St) : \A kv \in Slot(St, n) : IsRef(kv[2]) => kind[kv[2]] # "free"
\* C01 as an action property: a child that an operation removed from n is no longer n's child
RemovedIsDetached ==
  [][\A n \in Nodes, m \in Nodes :
       (m \in ChildrenOf(St, n) /\ kind'[m] # "free" /\ kind'[n] # "free"
        /\ m \notin ({litems'[n][i] : i \in 1..Len(litems'[n])} \cup {ditems'[n][i][2] : i \in 1..Len(ditems'[n])}))
       => parent'[m] # n]_vars

(* C08: a refused call changes nothing.  Single-target calls leave the whole tree as it was;
   a batched rebind may have applied its earlier elements, but never inside a protected node. *)
Protected(n) == kind[n] # "free" /\ TreatSealed(St, n)
WPEMeansUnchanged ==
  [][out'.k = "WPE" => /\ evts' = {}
                       /\ \A n \in Nodes : Protected(n) => (ditems'[n] = ditems[n] /\ litems'[n] = litems[n])]_vars
ErrorMeansUnchanged ==
  [][(out'.k \in {"IndexError", "ValueError", "TypeError"}) => UNCHANGED tree]_vars
\* content of a node that is treated as sealed never changes, whatever the call
\* a single-target call that raises leaves the whole tree as it was (a batched rebind may have applied earlier entries)
RejectedMeansUnchanged ==
  [][(out'.k \in {"IndexError", "ValueError", "TypeError", "KeyError"} /\ act'[1] # "Rebind") => UNCHANGED tree]_vars
SealedFrozen ==
  [][\A n \in Nodes : (Protected(n) /\ kind'[n] # "free") => (ditems'[n] = ditems[n] /\ litems'[n] = litems[n])]_vars
\* sealing is deep: seal(b) leaves every descendant with flag b
DeepSeal == [][\A n \in Nodes, b \in BOOLEAN : Seal(n, b) => \A d \in Desc(St, n) : sealed'[d] = b]_vars

(* C07: a clone is equal, fresh, detached, carries the flags, and building it touches nothing else;
   afterwards a call on one tree never changes the content of a node of another tree.        *)
StP == [kind |-> kind', ditems |-> ditems', litems |-> litems', parent |-> parent',
        pkey |-> pkey', sealed |-> sealed', accw |-> accw', subs |-> subs']
RECURSIVE PlainEq(_,_,_,_)
PlainEq(s1, a, s2, b) ==
  /\ s1.kind[a] = s2.kind[b]
  /\ IF IsList(s1, a)
     THEN /\ Len(s1.litems[a]) = Len(s2.litems[b])
          /\ \A i \in 1..Len(s1.litems[a]) :
                LET x == s1.litems[a][i]  y == s2.litems[b][i] IN
                IF IsRef(x) THEN IsRef(y) /\ PlainEq(s1, x, s2, y) ELSE x = y
     ELSE /\ Len(s1.ditems[a]) = Len(s2.ditems[b])
          /\ \A i \in 1..Len(s1.ditems[a]) :
                LET x == s1.ditems[a][i]  y == s2.ditems[b][i] IN
                /\ x[1] = y[1]
                /\ IF IsRef(x[2]) THEN IsRef(y[2]) /\ PlainEq(s1, x[2], s2, y[2]) ELSE x[2] = y[2]
NodeSame(m) == /\ kind'[m] = kind[m] /\ ditems'[m] = ditems[m] /\ litems'[m] = litems[m] /\ parent'[m] = parent[m]
               /\ pkey'[m] = pkey[m] /\ sealed'[m] = sealed[m] /\ accw'[m] = accw[m]
CloneOK ==
  [][\A n \in Nodes, dp \in BOOLEAN : Clone(n, dp) =>
       LET c == out'.ret IN
       /\ kind[c] = "free"
       /\ Desc(StP, c) \cap Alive(St) = {}
       /\ PlainEq(St, n, StP, c)
       /\ parent'[c] = NULL
       /\ sealed'[c] = sealed[n] /\ accw'[c] = accw[n]
       /\ \A m \in Alive(St) : NodeSame(m)]_vars
TreeActs == {"DictSet", "DictDel", "DictPop", "DictPopItem", "DictClear", "DictSetDefault", "DictUpdate", "ListSet", "ListDel",
             "ListAppend", "ListInsert", "ListExtend", "ListPop", "ListRemove", "ListClear", "ListReverse", "ListSort", "ListIMul",
             "ListSetSlice", "ListDelSlice", "Rebind", "Seal", "SetAccW"}
ContentLocality ==
  [][act'[1] \in TreeActs =>
       \A m \in Alive(St) : (m \notin Desc(St, RootOf(St, act'[2])) /\ kind'[m] # "free")
                               => (ditems'[m] = ditems[m] /\ litems'[m] = litems[m] /\ sealed'[m] = sealed[m] /\ accw'[m] = accw[m])]_vars

(* C09: a memoised fact is what a fresh computation gives *)
Fresh == \A n \in Alive(St) : memo[n][1] => memo[n] = FactsOf(St, n)

(* C09: events are delivered only to subscribing ancestors-or-self of a changed location,
   at most one per receiver, never when notification is off.                              *)
EventsOK ==
  /\ \A e \in evts : subs[e.recv] /\ e.ups # {}
  /\ \A e1, e2 \in evts : e1.recv = e2.recv => e1 = e2
  /\ (~NotifyOn => evts = {})
=============================================================================
