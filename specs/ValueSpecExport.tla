--------------------------- MODULE ValueSpecExport ---------------------------
(***************************************************************************)
(* Step 1 of the observed-relation check of C04: TLC evaluates the laws on *)
(* the *reference* semantics of ValueSpec.tla over the whole universe      *)
(* (design level: the reference itself must be a model of the algebra) and *)
(* exports the universe as JSON for the harness.                           *)
(***************************************************************************)
EXTENDS ValueSpec, Json, IOUtils

NS == Len(SpecSeq)
NV == Len(ValSeq)

\* ---- the laws on the reference (determined cells)
RefIdempotent == \A i \in 1..NS, j \in 1..NV :
  Acc(SpecSeq[i], ValSeq[j]) = "yes" =>
     LET r == App(SpecSeq[i], ValSeq[j]) IN Acc(SpecSeq[i], r) = "yes" /\ App(SpecSeq[i], r) = r
RefDefaultOK == \A i \in 1..NS : HasDefault(SpecSeq[i]) => Acc(SpecSeq[i], RefDefault(SpecSeq[i])) = "yes"
\* a frozen spec accepts exactly its value (and the missing marker), whatever else it says
RefFrozen == \A i \in 1..NS : SpecSeq[i].frz =>
  \A j \in 1..NV : Acc(SpecSeq[i], ValSeq[j]) = "yes" => App(SpecSeq[i], ValSeq[j]) = SpecSeq[i].dflt
\* every rejection has a label
RefWhy == \A i \in 1..NS, j \in 1..NV : Acc(SpecSeq[i], ValSeq[j]) = "no" => Len(WhyNot(SpecSeq[i], ValSeq[j])) >= 1

\* reference compatibility (containment of accept sets on this value universe) -- exported so that the
\* evidence can say how many observed `is_compatible = FALSE` cells are merely conservative
AcceptIdx(i) == {j \in 1..NV : Acc(SpecSeq[i], ValSeq[j]) = "yes"}
DcIdx(i) == {j \in 1..NV : Acc(SpecSeq[i], ValSeq[j]) = "dc"}

ASSUME PrintT(<<"universe", U, "specs", NS, "values", NV>>)
ASSUME RefIdempotent
ASSUME RefDefaultOK
ASSUME RefFrozen
ASSUME RefWhy
ASSUME JsonSerialize(IOEnv.OUT_FILE,
  [specs |-> SpecSeq, values |-> ValSeq,
   acc |-> [i \in 1..NS |-> [j \in 1..NV |-> Acc(SpecSeq[i], ValSeq[j])]]])

VARIABLE x
Init == x = 0
Next == UNCHANGED x
=============================================================================
