---------------------------- MODULE GenoValidate ----------------------------
(***************************************************************************)
(* Design-level search (C11): `validate` transcribed from the code         *)
(* (Space.validate, Choices.validate, Float.validate,                      *)
(* CustomDecisionPoint.validate) as an acceptor of raw trees, in two       *)
(* variants selected by AsCoded:                                           *)
(*   TRUE   today's rules: the value of a multi-choice / multi-element  *)
(*          node is ignored (finding C11-F2).  Until fix 0d51b25 the index *)
(*          test was only `value >= len(candidates)`, negative values      *)
(*          wrapped (C11-F1, fixed): both variants now require 0 <= value. *)
(*   FALSE  the intended rules: such nodes carry no value                  *)
(* TLC searches the one-step corruptions of every valid DNA for a tree the *)
(* acceptor takes although it is not in Valid (NoGap).  The as-coded       *)
(* variant is EXPECTED to fail: TLC's counter-example is a stray value,    *)
(* which the observed-relation check then meets on the real code.          *)
(***************************************************************************)
EXTENDS Geno

CONSTANT AsCoded

IsInt(t) == TKind(t) = "i"
\* candidates[v], 0-based
InRange(v, n) == v >= 0 /\ v < n
PyIdx(v, n) == v + 1

RECURSIVE AccSpace(_,_)
RECURSIVE AccDP(_,_)
AccSpace(sp, t) ==
  LET n == Len(sp.elems) IN
  IF n = 0 THEN TKind(t) = "n" /\ TKids(t) = <<>>
  ELSE IF n = 1 THEN AccDP(sp.elems[1], t)
  ELSE /\ Len(TKids(t)) = n
       /\ (AsCoded \/ TKind(t) = "n")
       /\ \A i \in 1..n : AccDP(sp.elems[i], TKids(t)[i])
AccDP(dp, t) ==
  IF dp.t = "choices" THEN
    LET n == Len(dp.cands) IN
    IF dp.k = 1
    THEN /\ IsInt(t)
         /\ InRange(TNum(t), n)
         /\ LET chosen == dp.cands[PyIdx(TNum(t), n)] IN
            /\ (chosen.elems = <<>>) = (TKids(t) = <<>>)
            /\ AccSpace(chosen, NormNode("n", 0, TKids(t)))
    ELSE /\ Len(TKids(t)) = dp.k
         /\ (AsCoded \/ TKind(t) = "n")
         /\ \A i \in 1..dp.k : IsInt(TKids(t)[i]) /\ InRange(TNum(TKids(t)[i]), n)
         /\ (dp.distinct => \A i, j \in 1..dp.k : i # j => TNum(TKids(t)[i]) # TNum(TKids(t)[j]))
         /\ (dp.sorted => \A i \in 1..(dp.k - 1) : TNum(TKids(t)[i]) <= TNum(TKids(t)[i+1]))
         /\ \A i \in 1..dp.k :
              AccSpace(dp.cands[PyIdx(TNum(TKids(t)[i]), n)], NormNode("n", 0, TKids(TKids(t)[i])))
  ELSE IF dp.t = "float" THEN TKind(t) = "f" /\ TNum(t) >= dp.lo /\ TNum(t) <= dp.hi /\ TKids(t) = <<>>
  ELSE TKind(t) = "s"

Accepts(sp, t) == AccSpace(sp, t)

\* every valid tree is accepted, and no one-step corruption outside Valid is
Gap(sp) == LET vt == ValidTrees(sp) IN
           { c \in UNION { Corruptions(sp, t) : t \in vt } : Accepts(sp, c[2]) /\ c[2] \notin vt }
Complete == done => \A t \in ValidTrees(spec) : Accepts(spec, t)
NoGap == done => Gap(spec) = {}
U_validate == Bounded({ Sp(<<x>>) : x \in LeafCh(1..2, 1..3) \cup {Deep, DeepM, Deepest, Ch(2, <<Sp(<<O2>>), Const, Const>>, TRUE, TRUE)} }
                      \cup { Sp(<<x, y>>) : x \in {O2, M23s, Deep}, y \in {O2, M22f} })
=============================================================================
