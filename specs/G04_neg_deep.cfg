SPECIFICATION Spec
CONSTANTS
  Tier = "tiny"
  Variant = "deep"
  MaxLevel = 1
  SimK = 0
VIEW TreeView
PROPERTY RebindExact
