SPECIFICATION Spec
CONSTANTS
  MaxNodes = 6
  Keys = {1, 2}
  Leafs = {101, 160, 170}
  Shapes = {200, 211, 220, 223}
  MaxLen = 2
  Acts = {"dict", "list", "flags", "scope"}
  Mirror = FALSE
  MaxLevel = 4
  InitKinds <- IK_DictList
  SimK = 0
CONSTRAINT LevelBound
VIEW view
