\* C15 simulation: <= 6 proposals, <= 2 in flight, any feedback order, <= 3 crashes
SPECIFICATION Spec
CONSTANTS
  Algs = {"sweep", "random", "dd_sweep", "dd_random", "dd_random2", "regevo", "hill", "hill2", "nsga2", "neat", "sched", "dd_regevo", "dd_hill_auto"}
  D = 3
  N = 6
  W = 2
  L = 9
  MaxAtt = 3
  MaxCrash = 3
  InOrder = FALSE
  PModes = {"propose", "feedback"}
  Mirror = {}
  LookAhead = 1
INVARIANT CountsOK
INVARIANT InflightOK
INVARIANT PopFromHist
INVARIANT DedupMemoryOK
PROPERTY RecoverIsStutter
PROPERTY ContinuesSame
