SPECIFICATION Spec
CONSTANTS
  U = "quick"
  Kind = "nest"
  InitPartial = FALSE
  Mirror = FALSE
  MaxLevel = 40
  Small = FALSE
  Avoid = FALSE
  SimK = 1
  AccW = TRUE
  Acts = {"oset", "rebind", "nest", "ctor", "batch"}
CONSTRAINT LevelBound
INVARIANT Conforms
INVARIANT AltsConform
PROPERTY RejectedWriteNoStore
