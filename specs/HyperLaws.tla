------------------------------ MODULE HyperLaws ------------------------------
(***************************************************************************)
(* C13 laws evaluated by TLC on observations of real hyper values.         *)
(* One record per <<template, where>>:                                     *)
(*   spec, size      template.dna_spec() projected, its space_size         *)
(*   dnas            per DNA: tree; decoded; decoded_again; twice_eq;      *)
(*                   is_det; encoded (tree of encode(decode(d))); redecoded;*)
(*                   materialized; digests of pg.to_json(template) before / *)
(*                   after decode / encode / materialize                   *)
(*   iter            list(pg.iter(value, where=...)) projected ; hasiter   *)
(***************************************************************************)
EXTENDS Hyper, Json, IOUtils

Obs == JsonDeserialize(IOEnv.OBS_FILE)

Fail(i, law, w) == <<[i |-> i, law |-> law, w |-> w]>>
SeqIf(c, s) == IF c THEN s ELSE <<>>

\* the DNAs of a finite space in iteration order = increasing DNA order (C11: the odometer is strictly increasing
\* and exact; sorting avoids a recursion as deep as the space is large)
IterSeq(f) == SetToSortSeq(DOMAIN f, LAMBDA a, b : TreeLess(f[a], f[b]))

\* a selected choice one of whose candidates contains a placeholder the filter rejects
NestedFiltered(t, w) ==
  \E p \in Placeholders(t) : IsChoice(p) /\ W(w, p) /\
     \E c \in 1..Len(p.cands) : \E q \in Placeholders(p.cands[c]) : ~W(w, q)
Bad == <<"!", 0, <<>>>>

DnaLaws(i, t, w, sp, f, dist, x) ==
  IF ~\E d \in DOMAIN f : f[d] = x.tree THEN Fail(i, "harness_tree_not_valid", x.tree) ELSE
  LET d == CHOOSE dd \in DOMAIN f : f[dd] = x.tree
      v == Decode(t, w, d)
  IN SeqIf(x.decoded # v, Fail(i, "decode_value", <<x.tree, x.decoded>>))
  \o SeqIf(~OnlyFilteredLeft(w, x.decoded), Fail(i, "placeholder_left", <<x.tree, x.decoded>>))
  \o SeqIf(x.is_det # Deterministic(x.decoded), Fail(i, "is_deterministic_flag", <<x.tree, x.is_det>>))
  \o SeqIf(x.decoded_again # x.decoded \/ ~x.twice_eq, Fail(i, "decode_twice_differs", <<x.tree, x.decoded_again>>))
  \* encode raising although the value came out of decode, in the one situation where today's encode is known
  \* to ignore the filter: a rejected placeholder left inside a candidate of a selected choice
  \o LET nested == x.encoded = Bad /\ w # "all" /\ NestedFiltered(t, w) /\ ~Deterministic(x.decoded) IN
     SeqIf(nested, Fail(i, "encode_raises_on_filtered_placeholder_inside_selected_choice", <<x.tree, x.decoded>>))
     \o SeqIf(~nested /\ dist /\ x.encoded # x.tree, Fail(i, "encode_not_inverse", <<x.tree, x.encoded>>))
     \o SeqIf(~nested /\ x.redecoded # x.decoded, Fail(i, "decode_of_encode_differs", <<x.tree, x.encoded, x.redecoded>>))
  \o SeqIf(x.materialized # x.decoded, Fail(i, "materialize_differs", <<x.tree, x.materialized>>))
  \o SeqIf(x.json_after_decode # x.json_before, Fail(i, "template_modified_by_decode", x.tree))
  \o SeqIf(x.json_after_encode # x.json_before, Fail(i, "template_modified_by_encode", x.tree))
  \o SeqIf(x.json_after_materialize # x.json_before, Fail(i, "template_modified_by_materialize", x.tree))

IterLaws(i, t, w, sp, f, dist, o) ==
  LET it == o.iter
      ds == IterSeq(f)
      ref == [j \in 1..Len(ds) |-> Decode(t, w, ds[j])]
  IN SeqIf(Len(it) # Size(sp), Fail(i, "iter_count", <<Len(it), Size(sp)>>))
  \o SeqIf(dist /\ Cardinality(Range(it)) # Len(it), Fail(i, "iter_not_pairwise_different", <<Len(it), Cardinality(Range(it))>>))
  \o SeqIf(it # ref, Fail(i, "iter_values", <<Len(it)>>))
  \o SeqIf(o.json_after_iter # o.json_before, Fail(i, "template_modified_by_iter", 0))

Failures(i) ==
  LET o == Obs[i]
      t == o.tmpl
      w == o.wh
      sp == TemplateSpec(t, w)
      f == [d \in Valid(sp) |-> Tree(sp, d)]
      dist == Distinguishable(t, w)
  IN SeqIf(o.errs # <<>>, Fail(i, "unexpected_exception", o.errs))
  \o SeqIf(o.spec # sp, Fail(i, "dna_spec", o.spec))
  \o SeqIf(o.size # Size(sp), Fail(i, "space_size", <<o.size, Size(sp)>>))
  \o FlattenSeq([j \in 1..Len(o.dnas) |-> DnaLaws(i, t, w, sp, f, dist, o.dnas[j])])
  \o SeqIf(o.hasiter, IterLaws(i, t, w, sp, f, dist, o))

AllFailures == FlattenSeq([i \in 1..Len(Obs) |-> Failures(i)])

ASSUME /\ JsonSerialize(IOEnv.OUT_FILE, AllFailures)
       /\ PrintT(<<"laws evaluated on", Len(Obs), "templates; failures", Len(AllFailures)>>)
=============================================================================
