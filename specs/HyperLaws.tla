------------------------------ MODULE HyperLaws ------------------------------
(***************************************************************************)
(* C13 laws evaluated by TLC on observations of real hyper values.         *)
(* One record per <<template, where>>:                                     *)
(*   spec, size      template.dna_spec() projected, its space_size         *)
(*   dnas            per DNA: tree; decoded; decoded_again; twice_eq;      *)
(*                   is_det; encoded (tree of encode(decode(d))); redecoded;*)
(*                   materialized; digests of pg.to_json(template) before / *)
(*                   after decode / encode / materialize                   *)
(*   iter            list(pg.iter(value, where=...)) projected ; hasiter   *)
(*   bind_rejected   building the value (binding placeholders to the value *)
(*                   specs of typed fields) raised                         *)
(*   json            <<stage, digest of pg.to_json(user's value)>> after   *)
(*                   every use, from the moment the value is built         *)
(*   hist            <<tree of the unfiltered space, decode by an unfiltered*)
(*                   template built before / after the filtered uses>>     *)
(***************************************************************************)
EXTENDS Hyper, Json, IOUtils

Obs == JsonDeserialize(IOEnv.OBS_FILE)

Fail(i, law, w) == <<[i |-> i, law |-> law, w |-> w]>>
SeqIf(c, s) == IF c THEN s ELSE <<>>

\* the DNAs of a finite space in iteration order = increasing DNA order (C11: the odometer is strictly increasing
\* and exact; sorting avoids a recursion as deep as the space is large)
IterSeq(f) == SetToSortSeq(DOMAIN f, LAMBDA a, b : TreeLess(f[a], f[b]))

\* a selected choice one of whose candidates contains a placeholder the filter rejects
NestedFiltered(t, w) ==
  \E p \in Placeholders(t) : IsChoice(p) /\ W(w, p) /\
     \E c \in 1..Len(p.cands) : \E q \in Placeholders(p.cands[c]) : ~W(w, q)
Bad == <<"!", 0, <<>>>>

DnaLaws(i, t, w, sp, f, dist, x) ==
  IF ~\E d \in DOMAIN f : f[d] = x.tree THEN Fail(i, "harness_tree_not_valid", x.tree) ELSE
  LET d == CHOOSE dd \in DOMAIN f : f[dd] = x.tree
      v == Decode(t, w, d)
  IN SeqIf(x.decoded # v, Fail(i, "decode_value", <<x.tree, x.decoded>>))
  \o SeqIf(~OnlyFilteredLeft(w, x.decoded), Fail(i, "placeholder_left", <<x.tree, x.decoded>>))
  \o SeqIf(x.is_det # Deterministic(x.decoded), Fail(i, "is_deterministic_flag", <<x.tree, x.is_det>>))
  \o SeqIf(x.decoded_again # x.decoded \/ ~x.twice_eq, Fail(i, "decode_twice_differs", <<x.tree, x.decoded_again>>))
  \* C13-F1: today's encode walks the UNFILTERED choice.  Whenever a selected choice has a candidate containing a
  \* placeholder the filter rejects, encode of a decoded value may raise (the placeholder is still in the value) or
  \* match the wrong candidate (an unfiltered Float claims a constant): any inverse failure in exactly that
  \* situation is attributed to this one law; everywhere else the inverse laws keep their own names
  \o LET nested == w # "all" /\ NestedFiltered(t, w)
         broken == (dist /\ x.encoded # x.tree) \/ x.redecoded # x.decoded IN
     SeqIf(nested /\ broken, Fail(i, "encode_raises_on_filtered_placeholder_inside_selected_choice", <<x.tree, x.decoded, x.encoded>>))
     \o SeqIf(~nested /\ dist /\ x.encoded # x.tree, Fail(i, "encode_not_inverse", <<x.tree, x.encoded>>))
     \o SeqIf(~nested /\ x.redecoded # x.decoded, Fail(i, "decode_of_encode_differs", <<x.tree, x.encoded, x.redecoded>>))
  \* encode accepts exactly the values the template describes: near misses of the decoded value (a list one item
  \* longer / shorter, a changed constant, an object of the sibling class) are judged by Encode
  \o LET nestedF == w # "all" /\ NestedFiltered(t, w)
         bad == { j \in 1..Len(x.foreign) :
                    LET e == Encode(t, w, x.foreign[j][1]) IN
                    IF e.ok THEN x.foreign[j][2] = Bad \/ (dist /\ x.foreign[j][2] # Tree(sp, e.ds))
                    ELSE x.foreign[j][2] # Bad }
     IN SeqIf(~nestedF /\ bad # {},
              Fail(i, IF Encode(t, w, x.foreign[Min(bad \cup {Len(x.foreign)})][1]).ok
                      THEN "encode_wrong_on_value_of_template" ELSE "encode_accepts_value_outside_template",
                   x.foreign[Min(bad \cup {Len(x.foreign)})]))
  \o SeqIf(x.materialized # x.decoded, Fail(i, "materialize_differs", <<x.tree, x.materialized>>))
  \o SeqIf(~TypedFieldsOK(x.decoded), Fail(i, "decoded_value_rejected_by_bound_spec", <<x.tree, x.decoded>>))

IterLaws(i, t, w, sp, f, dist, o) ==
  LET it == o.iter
      ds == IterSeq(f)
      ref == [j \in 1..Len(ds) |-> Decode(t, w, ds[j])]
  IN SeqIf(Len(it) # Size(sp), Fail(i, "iter_count", <<Len(it), Size(sp)>>))
  \o SeqIf(dist /\ Cardinality(Range(it)) # Len(it), Fail(i, "iter_not_pairwise_different", <<Len(it), Cardinality(Range(it))>>))
  \o SeqIf(it # ref, Fail(i, "iter_values", <<Len(it)>>))

\* the user's hyper value is judged by its serialised form after every use, starting when it is built:
\* o.json = << <<stage, digest>>, ... >>, first stage "built"
PurityLaws(i, o) ==
  LET bad == { j \in 1..Len(o.json) : o.json[j][2] # o.json[1][2] } IN
  SeqIf(bad # {}, Fail(i, "hyper_value_modified", <<o.json[Min(bad \cup {Len(o.json)})][1]>>))

\* the same value object used with the filter and without it (both orders): the unfiltered space and the
\* unfiltered decodes are those of the template, whatever was done to the value before
HistoryLaws(i, t, o) ==
  LET spa == TemplateSpec(t, "all")
      fa == [d \in Valid(spa) |-> Tree(spa, d)]
      bad == { j \in 1..Len(o.hist) :
                 \/ ~\E d \in DOMAIN fa : fa[d] = o.hist[j][1]
                 \/ LET d == CHOOSE dd \in DOMAIN fa : fa[dd] = o.hist[j][1]
                    IN o.hist[j][2] # Decode(t, "all", d) \/ o.hist[j][3] # Decode(t, "all", d) }
  IN SeqIf(o.spec_all_after # spa, Fail(i, "unfiltered_space_after_filtered_use", o.spec_all_after))
  \o SeqIf(bad # {}, Fail(i, "unfiltered_decode_after_filtered_use", o.hist[Min(bad \cup {Len(o.hist)})]))

Failures(i) ==
  LET o == Obs[i]
      t == o.tmpl
      w == o.wh
  IN
  \* binding: a placeholder whose values the field's spec would reject must be refused when the value is built
  IF ~WellTyped(t)
  THEN SeqIf(~o.bind_rejected /\ ~o.rebind_accepted, Fail(i, "bind_accepts_placeholder_exceeding_value_spec", 0))
       \* binding is judged alike at every attempt: the same placeholder objects, refused once, are refused again
       \o SeqIf(o.rebind_accepted, Fail(i, "rebind_accepts_placeholder_refused_before", 0))
  ELSE IF o.bind_rejected THEN Fail(i, "bind_rejects_acceptable_placeholder", 0)
  ELSE
  LET sp == TemplateSpec(t, w)
      f == [d \in Valid(sp) |-> Tree(sp, d)]
      dist == Distinguishable(t, w)
  IN SeqIf(o.errs # <<>>, Fail(i, "unexpected_exception", o.errs))
  \o SeqIf(o.spec # sp, Fail(i, "dna_spec", o.spec))
  \o SeqIf(o.size # Size(sp), Fail(i, "space_size", <<o.size, Size(sp)>>))
  \o FlattenSeq([j \in 1..Len(o.dnas) |-> DnaLaws(i, t, w, sp, f, dist, o.dnas[j])])
  \o SeqIf(o.hasiter, IterLaws(i, t, w, sp, f, dist, o))
  \o PurityLaws(i, o)
  \o SeqIf(o.hashist, HistoryLaws(i, t, o))

AllFailures == FlattenSeq([i \in 1..Len(Obs) |-> Failures(i)])

ASSUME /\ JsonSerialize(IOEnv.OUT_FILE, AllFailures)
       /\ PrintT(<<"laws evaluated on", Len(Obs), "templates; failures", Len(AllFailures)>>)
=============================================================================
