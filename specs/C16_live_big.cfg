SPECIFICATION FairSpec
CONSTANTS
  Workers = {1, 2}
  Configs <- LiveBig
  MirrorGoc = FALSE
  MirrorSetup = FALSE
  MirrorDone = FALSE
  LockCreate = TRUE
  LockComplete = TRUE
  LockAlg = TRUE
  NULL = NULL
PROPERTIES Termination
