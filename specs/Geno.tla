-------------------------------- MODULE Geno --------------------------------
(***************************************************************************)
(* Search-space specifications (pg.geno.DNASpec) and their DNAs.           *)
(*                                                                         *)
(*  C11: the declarative valid set `Valid`, the size recurrences `Size`,   *)
(*       the DNA order `TreeCmp`, and the ODOMETER (`_next_dna`) as a      *)
(*       transition system (variables spec, cur, visited, done).           *)
(*  C12: decision points by position (`Dps`, `SpecAt`), decision ids,      *)
(*       `Aligned`, the views (numbers, dictionaries) -- second half.      *)
(*  C13: Hyper.tla EXTENDS this module.                                    *)
(*                                                                         *)
(* A spec is one of                                                        *)
(*   [t |-> "space",   elems |-> Seq(decision point)]                      *)
(*   [t |-> "choices", k, cands |-> Seq(space), distinct, sorted,          *)
(*                     name |-> 0 | n, lits |-> 0 | 1 | 2]                 *)
(*   [t |-> "float",   lo, hi, name]       (values in tenths)              *)
(*   [t |-> "custom",  name]               (values = string numbers)       *)
(* An abstract DNA mirrors the spec:                                       *)
(*   space   : Seq of element DNAs                                         *)
(*   choices : Seq (length k) of <<candidate index (0-based), DNA of the   *)
(*             chosen candidate space>>                                    *)
(*   float   : an integer (tenths);  custom : an integer (string number)   *)
(* A raw tree is what a pg.DNA object is: <<kind, n, children>> with kind  *)
(* "n" (None), "i" (int), "f" (float, tenths), "s" (string number).        *)
(***************************************************************************)
EXTENDS Integers, Sequences, FiniteSets, TLC, SequencesExt, FiniteSetsExt

Sp(elems) == [t |-> "space", elems |-> elems]
ChN(k, cands, d, s, name, lits) ==
  [t |-> "choices", k |-> k, cands |-> cands, distinct |-> d, sorted |-> s, name |-> name, lits |-> lits]
Ch(k, cands, d, s) == ChN(k, cands, d, s, 0, 0)
FlN(lo, hi, name) == [t |-> "float", lo |-> lo, hi |-> hi, name |-> name]
Fl(lo, hi) == FlN(lo, hi, 0)
CuN(name) == [t |-> "custom", name |-> name]
Cu == CuN(0)
Const == Sp(<<>>)
ConstSeq(n) == [i \in 1..n |-> Const]

\* ---------------------------------------------------------------- well-formedness
\* what pg.geno accepts at construction: enough candidates for distinct choices, lo <= hi
RECURSIVE WellFormed(_)
WellFormed(sp) ==
  IF sp.t = "space" THEN \A i \in 1..Len(sp.elems) : sp.elems[i].t # "space" /\ WellFormed(sp.elems[i])
  ELSE IF sp.t = "choices"
       THEN /\ sp.k >= 1 /\ Len(sp.cands) >= 1
            /\ (sp.distinct => sp.k <= Len(sp.cands))
            /\ \A i \in 1..Len(sp.cands) : sp.cands[i].t = "space" /\ WellFormed(sp.cands[i])
  ELSE IF sp.t = "float" THEN sp.lo <= sp.hi
  ELSE TRUE

\* ---------------------------------------------------------------- the valid set (declarative)
SeqProduct(sets) ==            \* sets: Seq of sets -> set of sequences
  LET RECURSIVE P(_)
      P(i) == IF i = 0 THEN {<<>>} ELSE { Append(p, x) : p \in P(i-1), x \in sets[i] }
  IN P(Len(sets))

FloatVals(dp) == dp.lo..dp.hi                                 \* the range [lo, hi] at a resolution of tenths
CustomVals == {1, 2}                                         \* any string is a valid custom decision

\* the index combinations a (multi-)choice admits: arity, range, distinctness, sortedness
Combos(dp) ==
  LET n == Len(dp.cands) IN
  { c \in [1..dp.k -> 0..(n-1)] :
      /\ (dp.distinct => \A i, j \in 1..dp.k : i # j => c[i] # c[j])
      /\ (dp.sorted => \A i \in 1..(dp.k-1) : c[i] <= c[i+1]) }

RECURSIVE Valid(_)
Valid(sp) ==
  IF sp.t = "space" THEN SeqProduct([i \in 1..Len(sp.elems) |-> Valid(sp.elems[i])])
  ELSE IF sp.t = "choices"
       THEN UNION { SeqProduct([i \in 1..sp.k |-> { <<c[i], sub>> : sub \in Valid(sp.cands[c[i]+1]) }])
                    : c \in Combos(sp) }
  ELSE IF sp.t = "float" THEN FloatVals(sp)
  ELSE CustomVals

\* ---------------------------------------------------------------- size recurrences (as coded)
INF == -1
RECURSIVE Size(_)
RECURSIVE SzK(_,_,_,_)
SeqSum(s) == LET RECURSIVE Sum(_) Sum(i) == IF i = 0 THEN 0 ELSE s[i] + Sum(i-1) IN Sum(Len(s))
SzK(s, k, d, so) ==   \* s: seq of candidate sub-space sizes
  IF k = 0 THEN 1
  ELSE IF k = 1 THEN SeqSum(s)
  ELSE IF k > Len(s) /\ d THEN 0
  ELSE IF Len(s) = 1 THEN s[1]^k
  ELSE IF d /\ so THEN s[1] * SzK(Tail(s), k-1, d, so) + SzK(Tail(s), k, d, so)
  ELSE IF d THEN s[1] * k * SzK(Tail(s), k-1, d, so) + SzK(Tail(s), k, d, so)
  ELSE IF so THEN (LET RECURSIVE T(_) T(i) == IF i < 0 THEN 0 ELSE (s[1]^i) * SzK(Tail(s), k-i, d, so) + T(i-1) IN T(k))
  ELSE SzK(s, 1, d, so)^k
Size(sp) ==
  IF sp.t = "space"
  THEN LET sz == [i \in 1..Len(sp.elems) |-> Size(sp.elems[i])]
           RECURSIVE Pr(_) Pr(i) == IF i = 0 THEN 1 ELSE sz[i] * Pr(i-1)
       IN IF \E i \in 1..Len(sz) : sz[i] = INF THEN INF ELSE Pr(Len(sz))
  ELSE IF sp.t = "choices"
  THEN LET sz == [i \in 1..Len(sp.cands) |-> Size(sp.cands[i])]
       IN IF \E i \in 1..Len(sz) : sz[i] = INF THEN INF ELSE SzK(sz, sp.k, sp.distinct, sp.sorted)
  ELSE INF
Finite(sp) == Size(sp) # INF

\* ---------------------------------------------------------------- raw trees (what a pg.DNA object is)
Node(kind, n, kids) == <<kind, n, kids>>
NoneV == <<"n", 0>>
TKind(t) == t[1]
TNum(t) == t[2]
TKids(t) == t[3]
TVal(t) == <<t[1], t[2]>>

\* DNA.__init__ drops trivial intermediate nodes (None value, one child)
NormNode(kind, n, kids) ==
  LET k1 == IF Len(kids) = 1 /\ TKind(kids[1]) = "n" THEN TKids(kids[1]) ELSE kids
  IN IF kind = "n" /\ Len(k1) = 1 THEN k1[1] ELSE Node(kind, n, k1)

RECURSIVE NormTree(_)
NormTree(t) == NormNode(TKind(t), TNum(t), [i \in 1..Len(TKids(t)) |-> NormTree(TKids(t)[i])])

RECURSIVE Tree(_,_)
Tree(sp, d) ==
  IF sp.t = "space" THEN NormNode("n", 0, [i \in 1..Len(sp.elems) |-> Tree(sp.elems[i], d[i])])
  ELSE IF sp.t = "choices"
       THEN NormNode("n", 0, [i \in 1..sp.k |-> NormNode("i", d[i][1], <<Tree(sp.cands[d[i][1]+1], d[i][2])>>)])
  ELSE IF sp.t = "float" THEN Node("f", d, <<>>)
  ELSE Node("s", d, <<>>)

ValidTrees(sp) == { Tree(sp, d) : d \in Valid(sp) }

\* DNA.to_numbers(): the decisions in depth-first order
RECURSIVE Flat(_)
Flat(t) == LET RECURSIVE F(_) F(i) == IF i = 0 THEN <<>> ELSE F(i-1) \o Flat(TKids(t)[i])
           IN (IF TKind(t) = "n" THEN <<>> ELSE <<TVal(t)>>) \o F(Len(TKids(t)))

\* DNA.__cmp__: None < numbers < strings; numbers by value (1 == 1.0); then children left to right.
\* 2 = "not comparable" (different number of children under equal values: Python raises)
Num10(v) == IF v[1] = "i" THEN 10 * v[2] ELSE v[2]
CmpVal(x, y) ==
  IF x = y THEN 0
  ELSE IF x[1] = "n" THEN -1
  ELSE IF y[1] = "n" THEN 1
  ELSE IF x[1] = "s" /\ y[1] = "s" THEN (IF x[2] < y[2] THEN -1 ELSE 1)
  ELSE IF x[1] = "s" THEN 1
  ELSE IF y[1] = "s" THEN -1
  ELSE IF Num10(x) = Num10(y) THEN 0
  ELSE IF Num10(x) < Num10(y) THEN -1 ELSE 1
RECURSIVE TreeCmp(_,_)
TreeCmp(a, b) ==
  LET c == CmpVal(TVal(a), TVal(b)) IN
  IF c # 0 THEN c
  ELSE IF Len(TKids(a)) # Len(TKids(b)) THEN 2
  ELSE LET RECURSIVE K(_)
           K(i) == IF i > Len(TKids(a)) THEN 0
                   ELSE LET r == TreeCmp(TKids(a)[i], TKids(b)[i]) IN IF r # 0 THEN r ELSE K(i+1)
       IN K(1)
TreeLess(a, b) == TreeCmp(a, b) = -1

\* lexicographic order of the flattened decisions (a second, independent reading of "increasing")
FlatLess(a, b) ==
  \E i \in 1..Len(a) : /\ i <= Len(b) /\ \A j \in 1..(i-1) : CmpVal(a[j], b[j]) = 0
                       /\ CmpVal(a[i], b[i]) = -1

\* ---------------------------------------------------------------- DNA-shaped inputs near the valid set
\* One-step corruptions of a raw tree, each with a label naming the kind of step.  M = the largest
\* number of candidates in the spec, so that -1, -M and M ("len") are tried on every index.
MaxCands(sp) ==
  LET RECURSIVE MC(_)
      MC(x) == IF x.t = "space" THEN Max({0} \cup { MC(x.elems[i]) : i \in 1..Len(x.elems) })
               ELSE IF x.t = "choices" THEN Max({Len(x.cands)} \cup { MC(x.cands[i]) : i \in 1..Len(x.cands) })
               ELSE 0
  IN MC(sp)

LocalCorr(t, M) ==
  LET kind == TKind(t)  n == TNum(t)  kids == TKids(t)  m == Len(kids) IN
     (IF kind = "i"
      THEN { <<IF v < 0 THEN "neg" ELSE IF v > n THEN "inc" ELSE "dec", Node("i", v, kids)>>
               : v \in {-M, -1, n-1, n+1, M} \ {n} }
           \cup { <<"i2f", Node("f", 10 * n, kids)>>, <<"i2n", Node("n", 0, kids)>>, <<"i2s", Node("s", 1, kids)>> }
      ELSE IF kind = "f"
      THEN { <<"fdec", Node("f", n - 5, kids)>>, <<"finc", Node("f", n + 5, kids)>>,
             <<"f2i", Node("i", n \div 10, kids)>>, <<"f2s", Node("s", 1, kids)>> }
      ELSE IF kind = "s"
      THEN { <<"s2i", Node("i", 0, kids)>>, <<"s2f", Node("f", 0, kids)>> }
      ELSE { <<"n2i", Node("i", 0, kids)>> })
  \cup { <<"drop", Node(kind, n, RemoveAt(kids, i))>> : i \in 1..m }
  \cup { <<"add", Node(kind, n, Append(kids, Node("i", 0, <<>>)))>> }
  \cup { <<"dup", Node(kind, n, Append(kids, kids[m]))>> : x \in IF m > 0 THEN {1} ELSE {} }
  \cup { <<"swap", Node(kind, n, [j \in 1..m |-> IF j = i THEN kids[i+1] ELSE IF j = i+1 THEN kids[i] ELSE kids[j]])>>
            : i \in { ii \in 1..(m-1) : kids[ii] # kids[ii+1] } }

RECURSIVE Corr(_,_)
Corr(t, M) ==
  LocalCorr(t, M) \cup
  UNION { { <<c[1], Node(TKind(t), TNum(t), ReplaceAt(TKids(t), i, c[2]))>> : c \in Corr(TKids(t)[i], M) }
          : i \in 1..Len(TKids(t)) }

\* what the DNA constructor makes of the corrupted tree (it normalises)
Corruptions(sp, t) == { <<c[1], NormTree(c[2])>> : c \in Corr(t, MaxCands(sp)) }

\* m positions out of 1..n, spread out, rotated by salt (deterministic)
Pick(n, m, salt) == IF n <= m THEN 1..n
                    ELSE { ((j * (n \div m) + salt) % n) + 1 : j \in 0..(m-1) }

\* probes of one spec: nv valid trees (label "v") and nc of the corruptions of nb of them
Probes(sp, nv, nb, nc, salt) ==
  LET vs == SetToSeq(ValidTrees(sp))
      n == Len(vs)
      cs == SetToSeq(UNION { Corruptions(sp, vs[i]) : i \in Pick(n, nb, salt + 1) })
  IN { <<"v", vs[i]>> : i \in Pick(n, nv, salt) } \cup { cs[i] : i \in Pick(Len(cs), nc, salt) }

\* ---------------------------------------------------------------- the odometer, transcribed from _next_dna
NoDNA == [ok |-> FALSE, d |-> <<>>]
Some(d) == [ok |-> TRUE, d |-> d]

RECURSIVE FirstSp(_)
RECURSIVE FirstDP(_)
FirstDP(dp) ==
  IF dp.t = "choices"
  THEN [i \in 1..dp.k |-> LET c == IF dp.distinct THEN i - 1 ELSE 0 IN <<c, FirstSp(dp.cands[c+1])>>]
  ELSE IF dp.t = "float" THEN dp.lo ELSE 1
FirstSp(sp) == [i \in 1..Len(sp.elems) |-> FirstDP(sp.elems[i])]

\* next_value_for_choice: n (= no value) when exhausted
NextValueForChoice(dp, prior, cur) ==
  LET n == Len(dp.cands)
      nv == cur + 1
      poss == (nv..(n-1)) \ Range(prior)
  IN IF dp.distinct THEN (IF poss = {} THEN n ELSE Min(poss)) ELSE nv

\* min_remaining_choices
MinRemaining(dp, prior) ==
  LET n == Len(dp.cands)
      base == IF dp.sorted /\ Len(prior) > 0 THEN prior[Len(prior)]..(n-1) ELSE 0..(n-1)
      poss0 == IF dp.distinct THEN base \ Range(prior) ELSE base
      RECURSIVE R(_,_,_)
      R(m, poss, acc) == IF m = 0 THEN Some(acc)
                         ELSE IF poss = {} THEN NoDNA
                         ELSE LET c == Min(poss)
                              IN R(m-1, IF dp.distinct THEN poss \ {c} ELSE poss, Append(acc, c))
  IN R(dp.k - Len(prior), poss0, <<>>)

RECURSIVE NextSp(_,_)
RECURSIVE NextDP(_,_)
NextSp(sp, d) ==               \* Space._next_dna: increment right to left, reset what is to the right
  LET n == Len(sp.elems)
      RECURSIVE Go(_)
      Go(i) == IF i = 0 THEN NoDNA
               ELSE LET nx == NextDP(sp.elems[i], d[i]) IN
                    IF nx.ok THEN Some([j \in 1..n |-> IF j < i THEN d[j]
                                                       ELSE IF j = i THEN nx.d ELSE FirstDP(sp.elems[j])])
                    ELSE Go(i-1)
  IN Go(n)
NextDP(dp, d) ==               \* Choices._next_dna (Float/Custom cannot be advanced)
  IF dp.t # "choices" THEN NoDNA ELSE
  LET n == Len(dp.cands)
      RECURSIVE Go(_)
      Go(ci) ==
        IF ci = 0 THEN NoDNA ELSE
        LET v == d[ci][1]
            sub == NextSp(dp.cands[v+1], d[ci][2])
            prior == [j \in 1..(ci-1) |-> d[j][1]]
            nv == NextValueForChoice(dp, prior, v)
            upd == IF sub.ok THEN Some(<<v, sub.d>>)
                   ELSE IF nv < n THEN Some(<<nv, FirstSp(dp.cands[nv+1])>>) ELSE NoDNA
        IN IF ~upd.ok THEN Go(ci-1) ELSE
           LET rem == MinRemaining(dp, Append(prior, upd.d[1])) IN
           IF rem.ok
           THEN Some([j \in 1..dp.k |-> IF j < ci THEN d[j]
                                        ELSE IF j = ci THEN upd.d
                                        ELSE <<rem.d[j-ci], FirstSp(dp.cands[rem.d[j-ci]+1])>>])
           ELSE Go(ci-1)
  IN Go(dp.k)

\* ---------------------------------------------------------------- universes of specifications
CONSTANTS IterUniverse,        \* finite specs the odometer is run on (cfg: IterUniverse <- U_...)
          MaxSize              \* only specs with Size <= MaxSize

Modes(K, n) == { m \in K \X BOOLEAN \X BOOLEAN :
                   /\ (m[2] => m[1] <= n)
                   /\ (m[1] = 1 => (m[2] /\ ~m[3])) }          \* k = 1: the flags are immaterial; oneof's defaults
LeafCh(K, N) == UNION { { Ch(m[1], ConstSeq(n), m[2], m[3]) : m \in Modes(K, n) } : n \in N }
WF(S) == { s \in S : WellFormed(s) }
O2 == Ch(1, ConstSeq(2), TRUE, FALSE)
O3 == Ch(1, ConstSeq(3), TRUE, FALSE)
M23 == Ch(2, ConstSeq(3), TRUE, FALSE)
M23s == Ch(2, ConstSeq(3), TRUE, TRUE)
M22f == Ch(2, ConstSeq(2), FALSE, FALSE)
M22fs == Ch(2, ConstSeq(2), FALSE, TRUE)
Deep == Ch(1, <<Const, Sp(<<O2>>)>>, TRUE, FALSE)                 \* conditional nesting depth 2
DeepM == Ch(2, <<Const, Sp(<<O2>>), Const>>, TRUE, FALSE)
Deepest == Ch(1, <<Const, Sp(<<Deep>>)>>, TRUE, FALSE)            \* conditional nesting depth 3

CandsA == {Const, Sp(<<O2>>), Sp(<<M23>>), Sp(<<M22fs>>), Sp(<<M22f>>), Sp(<<M23s>>), Sp(<<O2, O2>>), Sp(<<Deep>>)}
CandsB == {Const, Sp(<<O2>>), Sp(<<M23>>)}
CandSeqs(C, N) == UNION { [1..n -> C] : n \in N }
ChoicesOver(CS, K) == UNION { { Ch(m[1], c, m[2], m[3]) : m \in Modes(K, Len(c)) } : c \in CS }

TopLeaf == LeafCh(1..3, 1..3)
TopPair == WF(LeafCh(1..2, 2..3) \cup {Deep, DeepM, Deepest, Ch(2, <<Sp(<<O2>>), Const>>, FALSE, TRUE)})
TopTriple == {O2, O3, M23s, M22f, Deep}

Bounded(S) == { s \in WF(S) : Size(s) # INF /\ Size(s) <= MaxSize }

U_tiny == Bounded({ Sp(<<x>>) : x \in LeafCh(1..2, 1..3) \cup {Deep, DeepM} })
U_quick == Bounded(
     { Sp(<<x>>) : x \in TopLeaf \cup ChoicesOver(CandSeqs(CandsA, 1..2), 1..3)
                               \cup ChoicesOver(CandSeqs(CandsB, {3}), 1..3) }
  \cup { Sp(<<x, y>>) : x \in TopPair, y \in TopPair }
  \cup { Sp(<<x, y, z>>) : x \in TopTriple, y \in TopTriple, z \in TopTriple })
U_thorough == Bounded(
     { Sp(<<x>>) : x \in TopLeaf \cup LeafCh(1..4, {4}) \cup ChoicesOver(CandSeqs(CandsA, 1..3), 1..3) }
  \cup { Sp(<<x, y>>) : x \in TopPair \cup LeafCh({3}, {3}), y \in TopPair \cup LeafCh({3}, {3}) }
  \cup { Sp(<<x, y, z>>) : x \in TopTriple \cup {M23, M22fs}, y \in TopTriple \cup {M23, M22fs}, z \in TopTriple \cup {M23, M22fs} })

\* specs with float / custom decision points: not enumerable (size -1); validate / bind / random only
F01 == Fl(0, 10)
U_inf == WF(
     { Sp(<<x>>) : x \in {F01, Fl(-10, 6), Fl(5, 5), Cu} }
  \cup { Sp(<<x, y>>) : x \in {F01, Cu, O2, M23s}, y \in {F01, Cu} }
  \cup { Sp(<<Ch(m[1], c, m[2], m[3])>>) :
           c \in CandSeqs({Const, Sp(<<F01>>), Sp(<<Cu>>), Sp(<<O2, F01>>)}, 1..2), m \in Modes(1..2, 2) }
  \cup { Sp(<<Ch(1, <<Const, Sp(<<Ch(1, <<Sp(<<F01>>), Const>>, TRUE, FALSE)>>)>>, TRUE, FALSE), O2>>) })

\* ---------------------------------------------------------------- the odometer as a transition system
VARIABLES spec, cur, prev, visited, done
vars == <<spec, cur, prev, visited, done>>

Init == /\ spec \in IterUniverse
        /\ cur = FirstSp(spec)
        /\ prev = NoDNA
        /\ visited = {cur}
        /\ done = FALSE

Step == /\ ~done
        /\ LET nx == NextSp(spec, cur) IN
           IF nx.ok THEN cur' = nx.d /\ prev' = Some(cur) /\ visited' = visited \cup {nx.d} /\ done' = FALSE
           ELSE done' = TRUE /\ UNCHANGED <<cur, prev, visited>>
        /\ UNCHANGED spec

Next == Step
Spec == Init /\ [][Next]_vars

\* every step goes strictly up in the DNA order (hence never repeats), under both readings of the order.
\* (`prev` is a history variable: TLC evaluates a state invariant ten times faster than the equivalent
\* action property [][TreeLess(cur, cur')]_cur.)
\* (\E over a singleton forces TLC to evaluate the trees once: operator arguments are passed unevaluated.)
Increasing == prev.ok => \E a \in {Tree(spec, prev.d)} : \E b \in {Tree(spec, cur)} :
                           /\ TreeLess(a, b)
                           /\ \E fa \in {Flat(a)} : \E fb \in {Flat(b)} : FlatLess(fa, fb)
\* when the odometer stops it has produced exactly the valid set, and the size formula counts it
Exact == done => /\ visited = Valid(spec)
                 /\ Cardinality(visited) = Size(spec)
\* the raw-tree representation is faithful (two valid DNAs never share a tree or their flat numbers)
Faithful == done => \E vt \in {ValidTrees(spec)} :
                      /\ Cardinality(vt) = Size(spec)
                      /\ Cardinality({ Flat(t) : t \in vt }) = Size(spec)
                      /\ \A t \in vt : NormTree(t) = t
FirstIsLeast == done => \E f \in {Tree(spec, FirstSp(spec))} :
                          \A t \in ValidTrees(spec) : t = f \/ TreeLess(f, t)

=============================================================================
