---------------------------- MODULE SamplingTrace ----------------------------
(***************************************************************************)
(* C->S validation for C16: every execution recorded from the real threads  *)
(* (pgverif/sampling.py, one JSON object per line: id, cf, ev) must be a     *)
(* behaviour of Sampling.tla.  One hook event = one action of Sampling.tla,  *)
(* taken by the worker that emitted it, with the logged scalars equal to the *)
(* values the specification computes; `want_*`, `fed` and `finish` are       *)
(* observation-only events (the specification state does not change).  Every *)
(* invariant of Sampling.tla is evaluated in every state, i.e. at every      *)
(* event; the first one that fails is reported per trace and the trace is    *)
(* cut there.  The final event compares pg.poll_result(name) and the         *)
(* algorithm's counters with the specification state at quiescence.          *)
(*                                                                           *)
(* Batched: all traces are validated in one TLC run (-workers 1); register   *)
(* t holds the furthest event of trace t that was matched.                   *)
(***************************************************************************)
EXTENDS Sampling, Json, IOUtils, TLCExt

Traces == ndJsonDeserialize(IOEnv.TRACE_FILE)
NT == Len(Traces)
NoConfigs == {}

\* which variant of the three mechanisms the tree under test has (detected from its events)
EnvMirrorGoc   == IOEnv.C16_MIRROR_GOC = "1"
EnvMirrorSetup == IOEnv.C16_MIRROR_SETUP = "1"
EnvMirrorDone  == IOEnv.C16_MIRROR_DONE = "1"
\* "0": report the consequence (two studies, lost counts, double feedback) instead of the commit point
CommitPoints   == IOEnv.C16_COMMIT_POINTS # "0"

VARIABLES tid, l
tvars == <<tid, l>>

CfOf(t) == LET c == Traces[t].cf IN
  [nw |-> c.nw, groups |-> c.groups, n |-> c.n, ops |-> {c.ops[i] : i \in DOMAIN c.ops},
   reward |-> c.reward, evo |-> c.evo, warm |-> c.warm, named |-> c.named]

TInit == /\ tid \in 1..NT /\ l = 1
         /\ cf = CfOf(tid)
         /\ InitRest

Ev == Traces[tid].ev
E == Ev[l]
W == E.w
Is(name) == l <= Len(Ev) /\ E.e = name
Adv == l' = l + 1 /\ UNCHANGED tid
Stut == UNCHANGED vars
B(b) == IF b THEN 1 ELSE 0
TrialId(s, p) == IF p = 0 THEN 0 ELSE trials[s][p].id

StudySec(w) == CASE pc[w] = "c_acq" -> 1
                 [] pc[w] = "m_acq" -> 3
                 [] OTHER -> 2
RelSec(w) == CASE pc[w] = "c_rel" -> 1 [] pc[w] = "m_rel" -> 3 [] OTHER -> 2
RegSec(w) == IF pc[w] \in {"goc_acq", "goc_rel"} THEN 1 ELSE 2
AlgSec(w) == IF pc[w] = "p_acq" THEN 1 ELSE 2

TGocTest == Is("goc_test") /\ GocTest(W) /\ E.found = B(cf.named /\ registry # NULL)
            /\ (cf.named /\ registry # NULL => E.sid = registry)
TGocStore == Is("goc_store") /\ GocStore(W) /\ E.sid = W
TWantReg == Is("want_reg") /\ pc[W] \in {"goc_acq", "setup_acq"} /\ E.sec = RegSec(W) /\ Stut
TAcqReg == Is("acquire_reg") /\ AcqReg(W) /\ E.sec = RegSec(W)
TRelReg == Is("release_reg") /\ RelReg(W) /\ E.sec = RegSec(W)
TSetupTest == Is("setup_test") /\ SetupTest(W) /\ E.needed = B(~algReady)
TSetupBegin == Is("alg_setup_begin") /\ SetupBegin(W)
TSetupDo == Is("alg_setup") /\ SetupDo(W)
TNextActive == Is("next_active") /\ NextActive(W) /\ E.active = B(active[S(W)])
TNextLookup == Is("next_lookup") /\ NextLookup(W) /\ E.latest = TrialId(S(W), latest[S(W)][G(W)])
TNextStatus == Is("next_status") /\ NextStatus(W) /\ E.reuse = B(pc'[W] = "got")
TWantStudy == Is("want_study") /\ WantsStudy(W) /\ E.sid = S(W) /\ E.sec = StudySec(W) /\ Stut
TAcqStudy == Is("acquire_study") /\ AcqStudy(W) /\ E.sid = S(W) /\ E.sec = StudySec(W)
TRelStudy == Is("release_study") /\ RelStudy(W) /\ E.sid = S(W) /\ E.sec = RelSec(W)
TCheckMax == Is("check_max") /\ CheckMax(W) /\ E.stop = B(pc'[W] = "stop") /\ E.n = Len(trials[S(W)])
TWantAlg == Is("want_alg") /\ pc[W] \in {"p_acq", "f_acq"} /\ E.sec = AlgSec(W) /\ Stut
TAcqAlg == Is("acquire_alg") /\ AcqAlg(W) /\ E.sec = AlgSec(W)
TPropose == Is("propose") /\ Propose(W) /\ E.nprop = nProp'
TAlloc == Is("alloc") /\ Alloc(W) /\ E.id = newId'[W]
TAppend == Is("append_trial") /\ AppendTrial(W) /\ E.id = newId[W] /\ E.n = Len(trials'[S(W)])
           /\ E.pending = pendingCnt'[S(W)] /\ E.group = G(W)
TReadReward == Is("sample_reward") /\ ReadReward(W) /\ E.has = B(Tr(W).fit)
TShortAdd == Is("add_measurement") /\ ShortAdd(W) /\ E.id = Tr(W).id /\ E.ok = B(Tr(W).status = "P")
TSetFitness == Is("evo_fitness") /\ SetFitness(W)
TChoose == Is("user_op") /\ Choose(W) /\ op'[W] = E.opname
TAdd == Is("add_measurement") /\ AddMeasurement(W) /\ E.id = Tr(W).id /\ E.ok = B(Tr(W).status = "P")
TDoneTest == /\ \/ Is("done_test") /\ ~Skipping(W)
                \/ Is("skip_test") /\ Skipping(W)
             /\ DoneTest(W) /\ E.id = Tr(W).id /\ E.pending = B(Tr(W).status = "P")
TDoneSet == Is("done_set") /\ DoneSet(W) /\ E.id = Tr(W).id /\ E.infeasible = B(Skipping(W))
TEvoPop == Is("evo_population") /\ EvoPopulation(W) /\ E.size = pop'
TRelAlg == Is("release_alg") /\ RelAlg(W) /\ E.sec = 2
TAlgFeedback == Is("alg_feedback") /\ AlgFeedback(W) /\ E.nfb = nFb'
TFed == Is("fed") /\ pc[W] = "k_acq" /\ E.id = Tr(W).id /\ Stut
TCompleteCounts == Is("complete_counts") /\ CompleteCounts(W) /\ E.id = Tr(W).id
                   /\ E.completed = completedCnt'[S(W)] /\ E.pending = pendingCnt'[S(W)]
TBestRead == Is("best_read") /\ BestRead(W) /\ E.best = TrialId(S(W), best[S(W)])
TCompleteDone == Is("complete") /\ CompleteDone(W) /\ E.id = Tr(W).id
                 /\ E.infeasible = infeasibleCnt[S(W)] /\ E.best = TrialId(S(W), best'[S(W)])
TEndLoop == Is("end_loop") /\ EndLoop(W) /\ E.sid = S(W)
TFinish == Is("finish") /\ pc[W] = "stop" /\ E.crash = 0 /\ Stut
\* the scheduler found every live worker blocked: only legal where the specification is stuck as well
TDeadlock == Is("deadlock") /\ ~ENABLED Next /\ ~Quiescent /\ Stut
TFinal ==
  /\ Is("final") /\ Quiescent /\ cf.named /\ registry # NULL
  /\ LET R == registry  P == 1..Len(trials[registry]) IN
     /\ E.ids = [i \in P |-> trials[R][i].id]
     /\ E.status = [i \in P |-> B(trials[R][i].status = "C")]
     /\ E.inf = [i \in P |-> B(trials[R][i].inf)]
     /\ E.completed = completedCnt[R] /\ E.pending = pendingCnt[R] /\ E.infeasible = infeasibleCnt[R]
     /\ E.best = TrialId(R, best[R]) /\ E.active = B(active[R])
     /\ E.nprop = nProp /\ E.nfb = nFb /\ (cf.evo => E.size = pop)
  /\ Stut

\* name=None: there is no handle on the private studies; only the shared algorithm is compared
TFinalUnnamed ==
  /\ Is("final_unnamed") /\ Quiescent /\ ~cf.named
  /\ E.nprop = nProp /\ E.nfb = nFb /\ (cf.evo => E.size = pop)
  /\ Stut

TNext ==
  /\ \/ TGocTest \/ TGocStore \/ TWantReg \/ TAcqReg \/ TRelReg \/ TSetupTest \/ TSetupBegin \/ TSetupDo
     \/ TNextActive \/ TNextLookup \/ TNextStatus \/ TWantStudy \/ TAcqStudy \/ TRelStudy
     \/ TCheckMax \/ TWantAlg \/ TAcqAlg \/ TPropose \/ TAlloc \/ TAppend
     \/ TReadReward \/ TShortAdd \/ TSetFitness \/ TChoose \/ TAdd \/ TDoneTest \/ TDoneSet \/ TEvoPop \/ TRelAlg \/ TAlgFeedback \/ TFed
     \/ TCompleteCounts \/ TBestRead \/ TCompleteDone \/ TEndLoop \/ TFinish \/ TDeadlock \/ TFinal \/ TFinalUnnamed
  /\ Adv
TSpec == TInit /\ [][TNext]_<<vars, tvars>>

-----------------------------------------------------------------------------
FirstViolated ==
  CASE CommitPoints /\ ~SingleCreator -> "SingleCreator"
    [] CommitPoints /\ ~SetupAtomic -> "SetupAtomic"
    [] CommitPoints /\ ~SingleCompleter -> "SingleCompleter"
    [] ~OneStudyPerName -> "OneStudyPerName"
    [] ~CountersExact -> "CountersExact"
    [] ~IdsUnique -> "IdsUnique"
    [] ~IdsDense -> "IdsDense"
    [] ~AtMostN -> "AtMostN"
    [] ~OneGroupPerTrial -> "OneGroupPerTrial"
    [] ~FeedbackAtMostOnce -> "FeedbackAtMostOnce"
    [] ~CompletedAtMostOnce -> "CompletedAtMostOnce"
    [] ~InfeasibleNeverBest -> "InfeasibleNeverBest"
    [] ~SameGroupSamePending -> "SameGroupSamePending"
    [] ~CountsConsistent -> "CountsConsistent"
    [] Quiescent /\ ~AllCompleted -> "AllCompleted"
    [] Quiescent /\ ~CountsAddUp -> "CountsAddUp"
    [] Quiescent /\ ~BestIsMax -> "BestIsMax"
    [] Quiescent /\ ~FeedbackExactlyOnce -> "FeedbackExactlyOnce"
    [] Quiescent /\ ~ExactlyN -> "ExactlyN"
    [] OTHER -> "none"

\* CONSTRAINT: remembers the furthest matched event per trace, reports the first invariant that
\* fails in a trace (and stops exploring that trace: cascades are cut)
Track ==
  /\ IF TLCGet(tid) < l THEN TLCSet(tid, l) /\ TLCSet(NT + tid, pc) ELSE TRUE
  /\ LET v == FirstViolated IN
     IF v = "none" THEN TRUE
     ELSE PrintT(<<"INV", Traces[tid].id, v, l - 1>>) /\ FALSE

Post == \A t \in 1..NT :
  IF TLCGet(t) = Len(Traces[t].ev) + 1
  THEN PrintT(<<"ACCEPT", Traces[t].id, TLCGet(t) - 1>>)
  ELSE PrintT(<<"STOPPED", Traces[t].id, TLCGet(t) - 1, TLCGet(NT + t)>>)

ASSUME \A t \in 1..NT : TLCSet(t, 0) /\ TLCSet(NT + t, <<>>)
=============================================================================
