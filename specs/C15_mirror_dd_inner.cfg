\* as coded: Deduping._replay calls generator._replay (not recover)
SPECIFICATION Spec
CONSTANTS
  Algs = {"dd_regevo", "dd_hill_auto"}
  D = 3
  N = 3
  W = 1
  L = 6
  MaxAtt = 3
  MaxCrash = 2
  InOrder = TRUE
  PModes = {"propose", "feedback"}
  Mirror = {"dd_inner"}
  LookAhead = 1
PROPERTY RecoverIsStutter
PROPERTY ContinuesSame
