SPECIFICATION Spec
CONSTANTS
  U = "quick"
  Chunks = 4
INVARIANT Holds
