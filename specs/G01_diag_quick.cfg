SPECIFICATION Spec
CONSTANTS
  Tier = "quick"
  Mode = "observed"
  SameRule = "intended"
INVARIANT Diagnose
