------------------------------- MODULE Scopes -------------------------------
(***************************************************************************)
(* C17 - scoped settings of PyGlove: every context manager of the library  *)
(* as a frame on a per-thread program stack, with                          *)
(*   (1) the MECHANISM each manager uses in the code (thread-local value   *)
(*       with save/restore-or-delete, stacks of merged kwargs, outermost   *)
(*       permission, contextual map with cascade markers, stack of         *)
(*       resolved detour maps, thread-local/process-wide evaluate          *)
(*       function, process-wide stack of on-demand type registries,        *)
(*       timing context with parent pointer) as explicit state, and        *)
(*   (2) the DOCUMENTED NESTING RULE of each manager written declaratively *)
(*       over the program stack (Eff* operators).                          *)
(* TLC checks that (1) implements (2) in every reachable state             *)
(* (NestingRule), that leaving a block restores exactly the view observed  *)
(* when it was entered (Restores) and that a step of one thread never      *)
(* changes what another thread observes, except for the managers the       *)
(* library documents as process-wide (Isolation).                          *)
(* `view` is the projection the conformance driver compares with the real  *)
(* getters after EVERY step in EVERY thread (pgverif/scopes.py).           *)
(*                                                                         *)
(* All arguments are flat sequences of integers (TLC cannot compare values *)
(* of different shapes); the driver maps them to concrete Python values.   *)
(***************************************************************************)
EXTENDS Integers, Sequences, FiniteSets, TLC

CONSTANTS Threads,       \* thread ids, e.g. {1, 2, 3}
          Deep,          \* the thread explored to MaxDepth
          MaxDepth,      \* nesting bound of the deep thread
          ShallowDepth,  \* nesting bound of the other threads
          Fams,          \* set of manager families; a behaviour uses the managers of ONE of them
          Mirror         \* TRUE: mechanisms exactly as coded today; FALSE: as intended

-----------------------------------------------------------------------------
(* Manager families                                                        *)
BoolMgrs  == {"notify", "typecheck", "origin", "autocall"}
TriMgrs   == {"partial", "sealed", "accessor"}
ValMgrs   == BoolMgrs \cup TriMgrs
KwMgrs    == {"strfmt", "reprfmt", "codectx", "viewopt"}
AllMgrs   == ValMgrs \cup KwMgrs \cup
             {"perm", "ctx", "detour", "wrap", "dyn", "ldtypes", "timeit", "catch"}

\* families, for the per-family exhaustive configurations (Mgrs <- Fam...)
FamVal     == ValMgrs
FamKw      == KwMgrs
FamPermCtx == {"perm", "ctx", "codectx"}
FamDetour  == {"detour", "wrap"}
FamGlobal  == {"dyn", "ldtypes", "catch"}
FamTimeit  == {"timeit", "catch"}
Families   == {FamVal, FamKw, FamPermCtx, FamDetour, FamGlobal, FamTimeit}
EveryFam   == Families \cup {AllMgrs}
OnlyAll    == {AllMgrs}
OnlyGlobal == {FamGlobal}
OnlyGlobalCore == {{"dyn", "ldtypes"}}
OnlyCtx    == {{"ctx"}}        \* explicit propagation between threads, densely
OnlyPermCtx == {FamPermCtx}
OnlyVal    == {FamVal}
OnlyKw     == {FamKw}
OnlyDetour == {FamDetour}
OnlyTimeit == {FamTimeit}

\* value scopes: 0 = False, 1 = True, 2 = None (defer to the object), -1 = key absent
DefaultOf(m) == CASE m \in {"notify", "typecheck"} -> 1
                  [] m \in {"origin", "autocall"}  -> 0
                  [] OTHER                         -> 2

\* kwargs scopes: keys are ints; for viewopt 21/22 are the leaves a/b of one nested dict option
KwKeys(m) == IF m = "viewopt" THEN {1, 21, 22} ELSE {1, 2}
CtxKeys   == {1, 2}
Classes   == 1..6          \* 1..3 plain classes A B C; 4 = wrapped class, 5 = its wrapper;
                           \* 6 = a FUNCTION used as detour destination (it builds the source class itself)
Types     == {1, 2}        \* two unregistered types for on-demand deserialisation
Names     == {1, 2}        \* timeit names
PermCodes == {0, 1, 2, 9, 255}  \* CodePermission bit sets: none, ASSIGN, CONDITION, BASIC (ASSIGN|CALL), ALL

Args(m) ==
  CASE m \in BoolMgrs -> {<<0>>, <<1>>}
    [] m \in TriMgrs  -> {<<0>>, <<1>>, <<2>>}
    [] m \in {"strfmt", "reprfmt", "codectx"} ->
         {<<k, v>> : k \in {1, 2}, v \in {0, 1}} \cup {<<1, 1, 2, 0>>}
    [] m = "viewopt"  -> {<<k, v>> : k \in {1, 21, 22}, v \in {0, 1}} \cup {<<21, 1, 22, 0>>}
    [] m = "perm"     -> {<<p>> : p \in PermCodes}
    [] m = "ctx"      -> {<<k, v, c>> : k \in CtxKeys, v \in {1, 2}, c \in {0, 1}}
                           \cup {<<1, 1, 1, 2, 1, 1>>, <<1, 2, 0, 2, 2, 0>>}
    [] m = "detour"   -> {<<1, 2>>, <<2, 3>>, <<1, 3>>, <<2, 1>>, <<3, 1>>, <<1, 2, 2, 1>>, <<1, 6>>, <<2, 6>>}
    [] m = "wrap"     -> {<<4, 5>>}
    \* <<fn, per_thread, exit_fn>>: exit_fn 0 = none, 1 = a callback that returns, 2 = a callback that RAISES
    [] m = "dyn"      -> {<<1, 1, 0>>, <<2, 1, 0>>, <<0, 1, 0>>, <<1, 0, 0>>, <<2, 0, 0>>,
                          <<1, 1, 1>>, <<2, 1, 2>>, <<1, 0, 2>>, <<2, 0, 1>>}
    [] m = "ldtypes"  -> {<<1>>, <<2>>, <<1, 2>>}
    [] m = "timeit"   -> {<<n>> : n \in Names}
    [] m = "catch"    -> {<<0>>, <<1>>}        \* 1: with an error_handler that raises

IsGlobal(m, a) == m = "ldtypes" \/ (m = "dyn" /\ a[2] = 0)

\* pairs / triples of a flat argument
Pairs(a)   == {<<a[2 * i - 1], a[2 * i]>> : i \in 1..(Len(a) \div 2)}
Triples(a) == {<<a[3 * i - 2], a[3 * i - 1], a[3 * i]>> : i \in 1..(Len(a) \div 3)}
SetMax(S)  == CHOOSE x \in S : \A y \in S : y <= x
SetMin(S)  == CHOOSE x \in S : \A y \in S : x <= y
Last(s)    == s[Len(s)]
Front(s)   == SubSeq(s, 1, Len(s) - 1)

-----------------------------------------------------------------------------
VARIABLES
  fam,     \* the family of managers this behaviour draws from (chosen initially, never changes)
  prog,    \* [Threads -> Seq(Frame)]: the open scopes of each thread (program stack)
  gprog,   \* Seq([t, m, a]): open process-wide scopes in entering order
  \* ---- mechanism state (what the library stores) ----
  val,     \* [Threads -> [ValMgrs -> -1..2]]   thread-local flag values (-1: key absent)
  kws,     \* [Threads -> [KwMgrs -> Seq(map)]] stacks of merged kwargs
  permv,   \* [Threads -> PermCodes \cup {-1}]  thread-local permission
  ctxm,    \* [Threads -> [CtxKeys -> <<value, cascade>>]]  (<<-1, 0>>: unbound)
  dst,     \* [Threads -> Seq([Classes -> 0..5])] stack of resolved detour maps
  tfn,     \* [Threads -> -1..2]  thread-local evaluate fn (-1 absent, 0 None)
  gfn,     \* 0..2                process-wide evaluate fn
  gld,     \* Seq(SUBSET Types)   process-wide stack of on-demand registries
  tcur,    \* [Threads -> Seq(Names)] the current timing context, as its chain of names
  tstat,   \* [Threads -> set of <<path, open count, error>>] status tree of the latest root timer
  \* ---- derived ----
  view,    \* [Threads -> View record] what the getters return
  beh,     \* [Threads -> Behaviour record] what the behavioural probes do, given the view
  dc,      \* [Threads -> SUBSET STRING] components not compared (documented as not thread-safe)
  act,     \* last action, for the replay driver
  out,     \* how the last step ended for its caller: "ok" | "propagated" (the exception passed through)
           \* | "suppressed" | "raised" (a user callback run on exit raised) | "refused" (enter raised)
  cbk      \* number of user exit callbacks the last step had to run (0/1)

mech == <<val, kws, permv, ctxm, dst, tfn, gfn, gld, tcur, tstat>>
vars == <<fam, prog, gprog, val, kws, permv, ctxm, dst, tfn, gfn, gld, tcur, tstat, view, beh, dc, act, out, cbk>>
noact == <<fam, prog, gprog, val, kws, permv, ctxm, dst, tfn, gfn, gld, tcur, tstat, view, beh, dc>>

EmptyKw(m)  == [k \in KwKeys(m) |-> -1]
EmptyCtx    == [k \in CtxKeys |-> <<-1, 0>>]
EmptyMap    == [c \in Classes |-> 0]

-----------------------------------------------------------------------------
(* The view: what each getter returns, as a function of the mechanism      *)
(* state.  Parameterised so that it can be evaluated on the primed state.  *)
ViewOf(t, val_, kws_, permv_, ctxm_, dst_, tfn_, gfn_, gld_, tcur_, tstat_) ==
  [ notify    |-> IF val_[t]["notify"] = -1 THEN 1 ELSE val_[t]["notify"],
    typecheck |-> IF val_[t]["typecheck"] = -1 THEN 1 ELSE val_[t]["typecheck"],
    origin    |-> IF val_[t]["origin"] = -1 THEN 0 ELSE val_[t]["origin"],
    autocall  |-> IF val_[t]["autocall"] = -1 THEN 0 ELSE val_[t]["autocall"],
    partial   |-> IF val_[t]["partial"] = -1 THEN 2 ELSE val_[t]["partial"],
    sealed    |-> IF val_[t]["sealed"] = -1 THEN 2 ELSE val_[t]["sealed"],
    accessor  |-> IF val_[t]["accessor"] = -1 THEN 2 ELSE val_[t]["accessor"],
    strfmt    |-> IF kws_[t]["strfmt"] = <<>> THEN EmptyKw("strfmt") ELSE Last(kws_[t]["strfmt"]),
    reprfmt   |-> IF kws_[t]["reprfmt"] = <<>> THEN EmptyKw("reprfmt") ELSE Last(kws_[t]["reprfmt"]),
    codectx   |-> IF kws_[t]["codectx"] = <<>> THEN EmptyKw("codectx") ELSE Last(kws_[t]["codectx"]),
    viewopt   |-> IF kws_[t]["viewopt"] = <<>> THEN EmptyKw("viewopt") ELSE Last(kws_[t]["viewopt"]),
    perm      |-> permv_[t],
    ctx       |-> [k \in CtxKeys |-> ctxm_[t][k][1]],
    detour    |-> [c \in 1..3 |-> IF dst_[t] = <<>> THEN 0 ELSE Last(dst_[t])[c]],
    wrap      |-> IF dst_[t] = <<>> THEN 0 ELSE Last(dst_[t])[4],
    dyn       |-> IF tfn_[t] = -1 THEN gfn_ ELSE tfn_[t],
    ldtypes   |-> IF gld_ = <<>> THEN {} ELSE Last(gld_),
    timeit    |-> <<tcur_[t], {<<e[1], IF e[2] = 0 THEN 1 ELSE 0, e[3]>> : e \in tstat_[t]}>> ]

View(t) == ViewOf(t, val, kws, permv, ctxm, dst, tfn, gfn, gld, tcur, tstat)

\* What the behavioural probes of the driver must do under a view v (1 = yes).  A scope value
\* None (2) defers to the probed object's own flag.
Behaviour(v) ==
  [ write_unsealed_raises  |-> IF v.sealed = 1 THEN 1 ELSE 0,       \* d = Dict(x=1); d['x'] = 2
    write_sealed_raises    |-> IF v.sealed # 0 THEN 1 ELSE 0,       \* same on a sealed Dict
    attr_default_raises    |-> IF v.accessor = 0 \/ v.sealed = 1 THEN 1 ELSE 0,    \* d.x = 2
    attr_nonwritable_raises |-> IF v.accessor # 1 \/ v.sealed = 1 THEN 1 ELSE 0,   \* accessor_writable=False
    callback_fires         |-> IF v.notify = 1 /\ v.sealed # 1 THEN 1 ELSE 0,      \* rebind on a Dict with onchange_callback
    wrong_type_raises      |-> IF v.typecheck = 1 THEN 1 ELSE 0,    \* A(x='s') for x: int
    \* A() without its required argument; 9 = not compared: a partial object is built by writing
    \* MISSING markers, which as_sealed(True) / allow_writable_accessors(False) refuse
    missing_arg_raises     |-> IF v.partial # 1 THEN 1
                               ELSE IF v.sealed = 1 \/ v.accessor = 0 THEN 9 ELSE 0,
    clone_has_origin       |-> IF v.origin = 1 THEN 1 ELSE 0,       \* a.clone().sym_origin
    functor_called         |-> IF v.autocall = 1 THEN 1 ELSE 0,     \* fn(1) returns 2
    assign_rejected        |-> IF v.perm # -1 /\ v.perm % 2 = 0 THEN 1 ELSE 0,     \* evaluate('z = 1')
    eval_x                 |-> v.codectx[1],                        \* evaluate('x')
    attr_cx                |-> v.ctx[1],                            \* ContextualObject().cx
    \* pg.oneof([1, 2]): which evaluate fn ran; 9 = not compared, because constructing an object
    \* with default-valued fields is itself refused under as_sealed(True) /
    \* allow_writable_accessors(False) / enable_type_check(False) - outside this property
    oneof_evaluated        |-> IF v.sealed = 1 \/ v.accessor = 0 \/ v.typecheck = 0 THEN 9 ELSE v.dyn,
    tooltip_rendered       |-> IF v.viewopt[1] # 0 THEN 1 ELSE 0 ]  \* summary tooltip in to_html_str
Comps == {"notify", "typecheck", "origin", "autocall", "partial", "sealed", "accessor",
          "strfmt", "reprfmt", "codectx", "viewopt", "perm", "ctx", "detour", "wrap",
          "dyn", "ldtypes", "timeit"}
GlobalComps == {"dyn", "ldtypes"}      \* may legitimately be changed by another thread

-----------------------------------------------------------------------------
(* The documented nesting rules, declaratively over the program stacks.    *)
Of(t, ms)     == SelectSeq(prog[t], LAMBDA f : f.m \in ms)

\* innermost wins; None (2) is a value like the others: it defers to the object
EffVal(t, m)  == LET p == Of(t, {m}) IN IF p = <<>> THEN DefaultOf(m) ELSE Last(p).a[1]

\* kwargs merge: per key, the innermost scope that gives the key wins (deep merge for the
\* nested option of viewopt: its leaves 21/22 merge independently)
EffKw(t, m)   == LET p == Of(t, {m}) IN
  [k \in KwKeys(m) |->
     LET idx == {i \in 1..Len(p) : \E pr \in Pairs(p[i].a) : pr[1] = k} IN
     IF idx = {} THEN -1
     ELSE (CHOOSE pr \in Pairs(p[SetMax(idx)].a) : pr[1] = k)[2]]

\* outermost wins
EffPerm(t)    == LET p == Of(t, {"perm"}) IN IF p = <<>> THEN -1 ELSE p[1].a[1]

\* contextual override: per key, the outermost binding marked `cascade` wins; without any
\* cascading binding the innermost binding wins ("ctxprop" = a propagated scope)
EffCtx(t)     == LET p == Of(t, {"ctx", "ctxprop"}) IN
  [k \in CtxKeys |->
     LET B == {i \in 1..Len(p) : \E tr \in Triples(p[i].a) : tr[1] = k}
         Tr(i) == CHOOSE tr \in Triples(p[i].a) : tr[1] = k
         C == {i \in B : Tr(i)[3] = 1} IN
     IF B = {} THEN -1
     ELSE IF C # {} THEN Tr(SetMin(C))[2] ELSE Tr(SetMax(B))[2]]

\* detour: the outermost scope that maps a class decides; its destination is followed
\* through the scopes that enclose it (transitivity), never through inner ones
RECURSIVE DRes(_, _)
DRes(fs, x) ==
  LET idx == {i \in 1..Len(fs) : \E pr \in Pairs(fs[i].a) : pr[1] = x} IN
  IF idx = {} THEN 0
  ELSE LET i == SetMin(idx)
           d == (CHOOSE pr \in Pairs(fs[i].a) : pr[1] = x)[2]
           r == DRes(SubSeq(fs, 1, i - 1), d) IN
       IF r # 0 THEN r ELSE d
EffDetour(t)  == [c \in 1..3 |-> DRes(Of(t, {"detour", "wrap"}), c)]
EffWrap(t)    == DRes(Of(t, {"detour", "wrap"}), 4)

\* dynamic evaluation: a per-thread scope of the thread wins (innermost), otherwise the
\* innermost process-wide scope of any thread, otherwise none
GDyn          == SelectSeq(gprog, LAMBDA g : g.m = "dyn")
EffDyn(t)     == LET p == SelectSeq(prog[t], LAMBDA f : f.m = "dyn" /\ f.a[2] = 1) IN
                 IF p # <<>> THEN Last(p).a[1]
                 ELSE IF GDyn # <<>> THEN Last(GDyn).a[1] ELSE 0

\* on-demand types: the union of all open scopes of all threads
EffLd         == UNION {{g.a[i] : i \in 1..Len(g.a)} : g \in {gprog[j] : j \in {i \in 1..Len(gprog) : gprog[i].m = "ldtypes"}}}

\* timing: the current context is the chain of the open timeit scopes
EffChain(t)   == LET p == Of(t, {"timeit"}) IN [i \in 1..Len(p) |-> p[i].a[1]]

Effective(t) ==
  [ notify |-> EffVal(t, "notify"), typecheck |-> EffVal(t, "typecheck"),
    origin |-> EffVal(t, "origin"), autocall |-> EffVal(t, "autocall"),
    partial |-> EffVal(t, "partial"), sealed |-> EffVal(t, "sealed"),
    accessor |-> EffVal(t, "accessor"),
    strfmt |-> EffKw(t, "strfmt"), reprfmt |-> EffKw(t, "reprfmt"),
    codectx |-> EffKw(t, "codectx"), viewopt |-> EffKw(t, "viewopt"),
    perm |-> EffPerm(t), ctx |-> EffCtx(t), detour |-> EffDetour(t), wrap |-> EffWrap(t),
    dyn |-> EffDyn(t), ldtypes |-> EffLd,
    timeit |-> <<EffChain(t), view[t].timeit[2]>> ]    \* the status tree is history, see TimeitOK

-----------------------------------------------------------------------------
Frame(m, a, si, sm, sc, t) ==
  [m |-> m, a |-> a,
   si |-> si,          \* saved integer (previous flag value / outer permission / old evaluate fn)
   sm |-> sm,          \* saved contextual map
   sc |-> sc,          \* saved timing chain (the parent context)
   v0 |-> [View(t) EXCEPT !.timeit = <<@[1], {}>>],   \* history: the view when the scope was entered
                       \* (without the status tree, which is history itself)
   g0 |-> gprog]       \* history: the process-wide scopes open at that moment

\* the small detour family is explored deeper (the status tree of timeit is history and grows fast)
\* and the permission/contextual family, whose propagated scopes multiply the product of two
\* threads, one level less when there are several threads
Bonus == CASE fam = FamDetour -> 1
           [] fam = FamPermCtx /\ Cardinality(Threads) > 1 -> -1
           [] fam = FamKw /\ Cardinality(Threads) > 1 /\ MaxDepth > 2 -> 2 - MaxDepth   \* 22 arguments: the product with a second thread
           [] fam = FamGlobal /\ Cardinality(Threads) > 1 /\ MaxDepth > 2 -> 2 - MaxDepth   \* frames carry history (v0, g0)
           [] fam = FamTimeit /\ MaxDepth > 3 -> 3 - MaxDepth      \* the status tree is history: depth 3 at most
           [] OTHER -> 0
DepthOf(t) == IF t = Deep THEN MaxDepth + Bonus ELSE ShallowDepth

Init ==
  /\ fam \in Fams
  /\ prog  = [t \in Threads |-> <<>>]
  /\ gprog = <<>>
  /\ val   = [t \in Threads |-> [m \in ValMgrs |-> -1]]
  /\ kws   = [t \in Threads |-> [m \in KwMgrs |-> <<>>]]
  /\ permv = [t \in Threads |-> -1]
  /\ ctxm  = [t \in Threads |-> EmptyCtx]
  /\ dst   = [t \in Threads |-> <<>>]
  /\ tfn   = [t \in Threads |-> -1]
  /\ gfn   = 0
  /\ gld   = <<>>
  /\ tcur  = [t \in Threads |-> <<>>]
  /\ tstat = [t \in Threads |-> {}]
  /\ view  = [t \in Threads |-> View(t)]
  /\ beh   = [t \in Threads |-> Behaviour(View(t))]
  /\ dc    = [t \in Threads |-> {}]
  /\ act   = <<"Init">>
  /\ out   = "ok" /\ cbk = 0

\* derived variables, to be conjoined AFTER the mechanism variables are primed
Derive ==
  /\ UNCHANGED fam
  /\ view' = [t \in Threads |->
                ViewOf(t, val', kws', permv', ctxm', dst', tfn', gfn', gld', tcur', tstat')]
  /\ beh'  = [t \in Threads |-> Behaviour(view'[t])]
  /\ dc'   = [t \in Threads |->
                IF \E u \in Threads \ {t} : \E i \in 1..Len(prog'[u]) : prog'[u][i].m = "wrap"
                THEN {"wrap"} ELSE {}]

-----------------------------------------------------------------------------
(* Mechanisms, one per family, as the code implements them                 *)

\* thread_local_value_scope: save (has_key, previous), set; restore or delete
EnterVal(t, m, a) ==
  /\ prog' = [prog EXCEPT ![t] = Append(@, Frame(m, a, val[t][m], EmptyCtx, <<>>, t))]
  /\ val'  = [val EXCEPT ![t][m] = a[1]]
  /\ UNCHANGED <<gprog, kws, permv, ctxm, dst, tfn, gfn, gld, tcur, tstat>>
ExitVal(t, f) ==
  /\ val' = [val EXCEPT ![t][f.m] = f.si]
  /\ UNCHANGED <<gprog, kws, permv, ctxm, dst, tfn, gfn, gld, tcur, tstat>>

\* thread_local_arg_scope / coding.context / view_options: push copy-of-top updated; pop
Merged(m, top, a) ==
  [k \in KwKeys(m) |-> IF \E pr \in Pairs(a) : pr[1] = k
                       THEN (CHOOSE pr \in Pairs(a) : pr[1] = k)[2] ELSE top[k]]
EnterKw(t, m, a) ==
  LET top == IF kws[t][m] = <<>> THEN EmptyKw(m) ELSE Last(kws[t][m]) IN
  /\ prog' = [prog EXCEPT ![t] = Append(@, Frame(m, a, 0, EmptyCtx, <<>>, t))]
  /\ kws'  = [kws EXCEPT ![t][m] = Append(@, Merged(m, top, a))]
  /\ UNCHANGED <<gprog, val, permv, ctxm, dst, tfn, gfn, gld, tcur, tstat>>
ExitKw(t, f) ==
  /\ kws' = [kws EXCEPT ![t][f.m] = Front(@)]
  /\ UNCHANGED <<gprog, val, permv, ctxm, dst, tfn, gfn, gld, tcur, tstat>>

\* coding.permission: the outer value, if any, replaces the requested one; deleted only by
\* the outermost scope
EnterPerm(t, a) ==
  LET outer == permv[t] IN
  /\ prog'  = [prog EXCEPT ![t] = Append(@, Frame("perm", a, outer, EmptyCtx, <<>>, t))]
  /\ permv' = [permv EXCEPT ![t] = IF outer # -1 THEN outer ELSE a[1]]
  /\ UNCHANGED <<gprog, val, kws, ctxm, dst, tfn, gfn, gld, tcur, tstat>>
ExitPerm(t, f) ==
  /\ permv' = [permv EXCEPT ![t] = IF f.si = -1 THEN -1 ELSE @]
  /\ UNCHANGED <<gprog, val, kws, ctxm, dst, tfn, gfn, gld, tcur, tstat>>

\* contextual_scope: copy the map; a key already bound with cascade keeps its binding
EnterCtx(t, m, a) ==
  LET prev == ctxm[t]
      cur  == [k \in CtxKeys |->
                 IF (\E tr \in Triples(a) : tr[1] = k) /\ ~(prev[k][1] # -1 /\ prev[k][2] = 1)
                 THEN LET tr == CHOOSE x \in Triples(a) : x[1] = k IN <<tr[2], tr[3]>>
                 ELSE prev[k]] IN
  /\ prog' = [prog EXCEPT ![t] = Append(@, Frame(m, a, 0, prev, <<>>, t))]
  /\ ctxm' = [ctxm EXCEPT ![t] = cur]
  /\ UNCHANGED <<gprog, val, kws, permv, dst, tfn, gfn, gld, tcur, tstat>>
ExitCtx(t, f) ==
  /\ ctxm' = [ctxm EXCEPT ![t] = f.sm]
  /\ UNCHANGED <<gprog, val, kws, permv, dst, tfn, gfn, gld, tcur, tstat>>

\* _DetourContext.enter_scope / leave_scope (apply_wrappers is a detour to the wrapper class)
EnterDetour(t, m, a) ==
  LET cur == IF dst[t] = <<>> THEN EmptyMap ELSE Last(dst[t])
      new == [c \in Classes |->
                IF cur[c] = 0 /\ \E pr \in Pairs(a) : pr[1] = c
                THEN LET d == (CHOOSE pr \in Pairs(a) : pr[1] = c)[2] IN
                     IF cur[d] # 0 THEN cur[d] ELSE d
                ELSE cur[c]] IN
  /\ prog' = [prog EXCEPT ![t] = Append(@, Frame(m, a, 0, EmptyCtx, <<>>, t))]
  /\ dst'  = [dst EXCEPT ![t] = Append(@, new)]
  /\ UNCHANGED <<gprog, val, kws, permv, ctxm, tfn, gfn, gld, tcur, tstat>>
ExitDetour(t, f) ==
  /\ dst' = [dst EXCEPT ![t] = Front(@)]
  /\ UNCHANGED <<gprog, val, kws, permv, ctxm, tfn, gfn, gld, tcur, tstat>>

\* hyper.dynamic_evaluate.  As coded (Mirror): the function to restore is whatever
\* get_dynamic_evaluate_fn() returned, and the per-thread variant writes it back into the
\* thread-local slot - which stays behind (holding None) and from then on hides process-wide
\* scopes from this thread.  Intended: the slot is removed again when it did not exist.
GetFn(t) == IF tfn[t] = -1 THEN gfn ELSE tfn[t]
NoLocalDyn  == \A u \in Threads : \A i \in 1..Len(prog[u]) :
                  ~(prog[u][i].m = "dyn" /\ prog[u][i].a[2] = 1)
EnterDyn(t, a) ==
  /\ IF a[2] = 1 THEN GDyn = <<>> /\ gfn = 0       \* mixing modes is refused by the library
                 ELSE NoLocalDyn
  /\ LET old == IF Mirror THEN GetFn(t) ELSE (IF a[2] = 1 THEN tfn[t] ELSE gfn) IN
     prog' = [prog EXCEPT ![t] = Append(@, Frame("dyn", a, old, EmptyCtx, <<>>, t))]
  /\ IF a[2] = 1
     THEN tfn' = [tfn EXCEPT ![t] = a[1]] /\ UNCHANGED <<gfn, gprog>>
     ELSE gfn' = a[1] /\ gprog' = Append(gprog, [t |-> t, m |-> "dyn", a |-> a]) /\ UNCHANGED tfn
  /\ UNCHANGED <<val, kws, permv, ctxm, dst, gld, tcur, tstat>>
ExitDyn(t, f) ==
  /\ IF f.a[2] = 1
     THEN tfn' = [tfn EXCEPT ![t] = f.si] /\ UNCHANGED <<gfn, gprog>>
     ELSE gfn' = f.si /\ gprog' = Front(gprog) /\ UNCHANGED tfn
  /\ UNCHANGED <<val, kws, permv, ctxm, dst, gld, tcur, tstat>>

\* JSONConvertible.load_types_for_deserialization: process-wide stack, inner extends outer
EnterLd(t, a) ==
  LET top == IF gld = <<>> THEN {} ELSE Last(gld) IN
  /\ prog'  = [prog EXCEPT ![t] = Append(@, Frame("ldtypes", a, 0, EmptyCtx, <<>>, t))]
  /\ gprog' = Append(gprog, [t |-> t, m |-> "ldtypes", a |-> a])
  /\ gld'   = Append(gld, top \cup {a[i] : i \in 1..Len(a)})
  /\ UNCHANGED <<val, kws, permv, ctxm, dst, tfn, gfn, tcur, tstat>>
ExitLd(t, f) ==
  /\ gld' = Front(gld) /\ gprog' = Front(gprog)
  /\ UNCHANGED <<val, kws, permv, ctxm, dst, tfn, gfn, tcur, tstat>>

\* TimeIt.__enter__/__exit__: the new context registers with the current one and becomes
\* current; on exit the parent (or nothing) becomes current; an exception is recorded.
Bump(S, p, dopen, err) ==
  IF \E e \in S : e[1] = p
  THEN {IF e[1] = p THEN <<p, e[2] + dopen, IF err = 1 THEN 1 ELSE e[3]>> ELSE e : e \in S}
  ELSE S \cup {<<p, dopen, err>>}
EnterTimeit(t, a) ==
  LET p == Append(tcur[t], a[1]) IN
  /\ prog'  = [prog EXCEPT ![t] = Append(@, Frame("timeit", a, 0, EmptyCtx, tcur[t], t))]
  /\ tcur'  = [tcur EXCEPT ![t] = p]
  /\ tstat' = [tstat EXCEPT ![t] = IF tcur[t] = <<>> THEN {<<p, 1, 0>>} ELSE Bump(@, p, 1, 0)]
  /\ UNCHANGED <<gprog, val, kws, permv, ctxm, dst, tfn, gfn, gld>>
\* f.si = 1: the timer was ended through its handle (TimeIt.end(), public and idempotent) while the
\* scope was still open: the exit has nothing left to record, but still hands the context back
ExitTimeit(t, f, exc) ==
  /\ tcur'  = [tcur EXCEPT ![t] = f.sc]
  /\ tstat' = [tstat EXCEPT ![t] = IF f.si = 1 THEN @ ELSE Bump(@, tcur[t], -1, exc)]
  /\ UNCHANGED <<gprog, val, kws, permv, ctxm, dst, tfn, gfn, gld>>

\* the innermost open timer is ended by hand inside its block: it stops counting as running, the
\* current timing context does NOT change (the block is still open)
InnermostTimer(t) == SetMax({i \in 1..Len(prog[t]) : prog[t][i].m = "timeit"})
EndEarly(t) ==
  /\ \E i \in 1..Len(prog[t]) : prog[t][i].m = "timeit"
  /\ LET i == InnermostTimer(t) IN
     /\ prog[t][i].si = 0
     /\ prog'  = [prog EXCEPT ![t][i].si = 1]
     /\ tstat' = [tstat EXCEPT ![t] = Bump(@, tcur[t], -1, 0)]
  /\ act' = <<"EndEarly", t>>
  /\ out' = "ok" /\ cbk' = 0
  /\ UNCHANGED <<gprog, val, kws, permv, ctxm, dst, tfn, gfn, gld, tcur>>
  /\ Derive

\* An exception raised by a USE of a scope and handled INSIDE the block must not change what the scope
\* means afterwards: instantiating a class detoured to a function that raises; a hyper primitive whose
\* evaluate function raises; a rendering that carries options and raises part-way.
InnerFault(t, m) ==
  /\ m \in fam
  /\ CASE m = "detour"  -> \E c \in 1..3 : view[t].detour[c] = 6
       [] m = "dyn"     -> view[t].dyn # 0
       [] m = "viewopt" -> TRUE
       [] OTHER         -> FALSE
  /\ act' = <<"InnerFault", t, m>>
  /\ out' = "ok" /\ cbk' = 0
  /\ UNCHANGED <<prog, gprog, val, kws, permv, ctxm, dst, tfn, gfn, gld, tcur, tstat>>
  /\ Derive

\* catch_errors: no ambient state at all
EnterCatch(t, a) ==
  /\ prog' = [prog EXCEPT ![t] = Append(@, Frame("catch", a, 0, EmptyCtx, <<>>, t))]
  /\ UNCHANGED <<gprog, val, kws, permv, ctxm, dst, tfn, gfn, gld, tcur, tstat>>
ExitCatch(t, f) == UNCHANGED <<gprog, val, kws, permv, ctxm, dst, tfn, gfn, gld, tcur, tstat>>

-----------------------------------------------------------------------------
Enter(t, m, a) ==
  /\ Len(prog[t]) < DepthOf(t)
  /\ CASE m \in ValMgrs            -> EnterVal(t, m, a)
       [] m \in KwMgrs             -> EnterKw(t, m, a)
       [] m = "perm"               -> EnterPerm(t, a)
       [] m = "ctx"                -> EnterCtx(t, m, a)
       [] m \in {"detour", "wrap"} -> EnterDetour(t, m, a)
       [] m = "dyn"                -> EnterDyn(t, a)
       [] m = "ldtypes"            -> EnterLd(t, a)
       [] m = "timeit"             -> EnterTimeit(t, a)
       [] m = "catch"              -> EnterCatch(t, a)
  /\ act' = <<"Enter", t, m, a>>
  /\ out' = "ok" /\ cbk' = 0
  /\ Derive

\* with_contextual_override: thread t captures its current overrides (values WITH their
\* cascade markers); thread u runs the wrapped function inside a scope that re-enters them
PropagateEnter(t, u) ==
  /\ t # u /\ "ctx" \in fam
  /\ Len(prog[u]) < DepthOf(u)
  /\ \E k \in CtxKeys : ctxm[t][k][1] # -1
  /\ LET bound == {k \in CtxKeys : ctxm[t][k][1] # -1}
         tri(k) == <<k, ctxm[t][k][1], ctxm[t][k][2]>>
         a == IF bound = CtxKeys THEN tri(1) \o tri(2) ELSE tri(CHOOSE k \in bound : TRUE) IN
     /\ EnterCtx(u, "ctxprop", a)
     /\ act' = <<"Propagate", t, u, a>>
  /\ out' = "ok" /\ cbk' = 0
  /\ Derive

\* a manager called with an argument it refuses (dynamic_evaluate with a non-callable, detour with a
\* non-class source, load_types_for_deserialization with something that has no __name__, catch_errors
\* with a non-exception, apply_wrappers with a non-wrapper): entering raises and NOTHING changes -
\* in particular the enclosing scopes of the same manager still restore exactly when they are left
\* every manager that validates / reads its arguments while entering
Refusable == {"dyn", "detour", "ldtypes", "catch", "wrap"}
EnterRaises(t, m) ==
  /\ m \in fam \cap Refusable
  /\ Len(prog[t]) < DepthOf(t)
  /\ act' = <<"EnterRaises", t, m>>
  /\ out' = "refused" /\ cbk' = 0
  /\ UNCHANGED <<prog, gprog, val, kws, permv, ctxm, dst, tfn, gfn, gld, tcur, tstat>>
  /\ Derive

\* LIFO per thread; a process-wide scope can only be left when it is the most recent one of
\* the whole process (well-nested programs - the library documents these as not thread-safe)
CanExit(t) ==
  /\ prog[t] # <<>>
  /\ LET f == Last(prog[t]) IN
     IsGlobal(f.m, f.a) => (gprog # <<>> /\ Last(gprog).t = t)

Exit(t, exc) ==
  /\ CanExit(t)
  /\ LET f == Last(prog[t]) IN
     /\ CASE f.m \in ValMgrs            -> ExitVal(t, f)
          [] f.m \in KwMgrs             -> ExitKw(t, f)
          [] f.m = "perm"               -> ExitPerm(t, f)
          [] f.m \in {"ctx", "ctxprop"} -> ExitCtx(t, f)
          [] f.m \in {"detour", "wrap"} -> ExitDetour(t, f)
          [] f.m = "dyn"                -> ExitDyn(t, f)
          [] f.m = "ldtypes"            -> ExitLd(t, f)
          [] f.m = "timeit"             -> ExitTimeit(t, f, exc)
          [] f.m = "catch"              -> ExitCatch(t, f)
     /\ prog' = [prog EXCEPT ![t] = Front(@)]
  /\ act' = <<IF exc = 1 THEN "ExitByException" ELSE "ExitNormal", t>>
  \* user code run on exit: dynamic_evaluate's exit_fn (only after a body without error),
  \* catch_errors' error_handler (only for a caught error).  Whatever that code does - return or
  \* RAISE - the scope is left and Restores must hold exactly as for the other exit kinds.
  /\ LET f == Last(prog[t]) IN
     /\ cbk' = IF (f.m = "dyn" /\ f.a[3] # 0 /\ exc = 0) \/ (f.m = "catch" /\ f.a[1] = 1 /\ exc = 1) THEN 1 ELSE 0
     /\ out' = CASE f.m = "dyn" /\ f.a[3] = 2 /\ exc = 0 -> "raised"
                 [] f.m = "catch" /\ exc = 1 -> (IF f.a[1] = 1 THEN "raised" ELSE "suppressed")
                 [] exc = 1 -> "propagated"
                 [] OTHER -> "ok"
  /\ Derive

ExitNormal(t)      == Exit(t, 0)
ExitByException(t) == Exit(t, 1)

Next ==
  \E t \in Threads :
    \/ ExitNormal(t)
    \/ ExitByException(t)
    \/ \E m \in fam : \E a \in Args(m) : Enter(t, m, a)
    \/ \E u \in Threads : PropagateEnter(t, u)
    \/ \E m \in Refusable : EnterRaises(t, m)
    \/ EndEarly(t)
    \/ \E m \in {"detour", "dyn", "viewopt"} : InnerFault(t, m)

Spec == Init /\ [][Next]_vars

-----------------------------------------------------------------------------
(* Properties                                                              *)

\* the mechanism implements the documented nesting rule, in every thread, always
NestingRule == \A t \in Threads : view[t] = Effective(t)

ViewIsProjection == \A t \in Threads : view[t] = View(t) /\ beh[t] = Behaviour(Effective(t))

\* timing bookkeeping: the running timers are exactly the prefixes of the current chain,
\* every recorded path has its parent recorded
LivePaths(t) == LET p == Of(t, {"timeit"}) IN
                {[j \in 1..i |-> p[j].a[1]] : i \in {k \in 1..Len(p) : p[k].si = 0}}
TimeitOK == \A t \in Threads :
  /\ tcur[t] = EffChain(t)
  /\ \A e \in tstat[t] :
       /\ e[2] \in {0, 1}
       /\ (e[2] = 1) <=> (e[1] \in LivePaths(t))
       /\ Len(e[1]) > 1 => \E p \in tstat[t] : p[1] = Front(e[1])

\* leaving a scope (normally or by exception) restores exactly the view observed when it was
\* entered: every thread-scoped component always, the process-wide ones whenever the set of
\* open process-wide scopes is again what it was then (the status tree of timeit is history)
IsExitOf(t) == prog[t] # <<>> /\ prog'[t] = Front(prog[t])
Restores == [][\A t \in Threads : IsExitOf(t) =>
                 LET f == Last(prog[t]) IN
                 /\ \A c \in Comps \ (GlobalComps \cup {"timeit"}) : view'[t][c] = f.v0[c]
                 /\ view'[t].timeit[1] = f.v0.timeit[1]
                 /\ gprog' = f.g0 => \A c \in GlobalComps : view'[t][c] = f.v0[c]]_vars

\* a step of thread t never changes what another thread observes, unless it enters or leaves
\* a scope documented as process-wide (and then only that component)
Stepper == IF act'[1] = "Propagate" THEN act'[3] ELSE act'[2]
Isolation == [][\A u \in Threads : u # Stepper =>
                  /\ \A c \in Comps \ GlobalComps : view'[u][c] = view[u][c]
                  /\ gprog' = gprog => view'[u] = view[u]
                  /\ prog'[u] = prog[u]]_vars

\* a fault handled inside a block changes nothing for anybody
InnerFaultIsNoop == [][act'[1] = "InnerFault" => (view' = view /\ prog' = prog /\ gprog' = gprog)]_vars

\* a refused enter changes nothing for anybody
RefusedIsNoop == [][out' = "refused" => (view' = view /\ prog' = prog /\ gprog' = gprog)]_vars

\* an inner permission scope never widens the outer one (used by C19 as well)
Narrowing == \A t \in Threads :
  LET p == Of(t, {"perm"}) IN p # <<>> => view[t].perm = p[1].a[1]

\* everything is back to the defaults when no scope is open anywhere
DefaultView(t) ==
  ViewOf(t, [x \in Threads |-> [m \in ValMgrs |-> -1]], [x \in Threads |-> [m \in KwMgrs |-> <<>>]],
         [x \in Threads |-> -1], [x \in Threads |-> EmptyCtx], [x \in Threads |-> <<>>],
         [x \in Threads |-> -1], 0, <<>>, tcur, tstat)
QuiescentIsDefault ==
  (\A t \in Threads : prog[t] = <<>>) => \A t \in Threads : view[t] = DefaultView(t)

=============================================================================
