SPECIFICATION Spec
CONSTANTS
  U = "quick"
  Kind = "obj"
  InitPartial = FALSE
  Mirror = FALSE
  MaxLevel = 3
  Small = TRUE
  Avoid = FALSE
  SimK = 0
  AccW = TRUE
  Acts = {"dset", "oset", "rebind", "ddel", "batch", "lset", "ldel", "slice", "lins", "inplace", "ctor"}
CONSTRAINT LevelBound
VIEW view
INVARIANT Conforms
INVARIANT AltsConform
PROPERTY RejectedWriteNoStore
