------------------------------- MODULE Diff -------------------------------
(***************************************************************************)
(* Structural diff of two symbolic values: pg.diff (spec growth, G01).     *)
(*                                                                         *)
(* 1. A finite universe U of values by grammar: None, ints, a float equal  *)
(*    to an int (1.0, kept apart from 1), a str, lists of <= 2 elements,   *)
(*    dicts over 'a','b','c' (and over the field names 'x','y','z') in     *)
(*    several insertion orders, objects of the classes A(x, y), B(A) (same *)
(*    fields), C(z), nestings to depth 2, containers plain and as          *)
(*    pg.List / pg.Dict.                                                   *)
(* 2. The documented rules of pg.diff as the reference `Walk`: the set of  *)
(*    locations (key paths) with the pair (left, right) found there -      *)
(*    equal values are reported whole, values that do not `collapse` are   *)
(*    reported whole, collapsed containers are walked key by key (a member *)
(*    missing on one side is MISSING there, a list index beyond the        *)
(*    shorter list likewise) and contribute a type entry under the key     *)
(*    `_type`; `mode` selects the differing / the same / all locations.    *)
(*    The switch SameRule selects the rule of mode 'same': "coded" (a      *)
(*    child container that holds a difference is dropped together with the *)
(*    same values inside it) or "intended" (every same location is kept).  *)
(* 3. The laws as operators over entry sets E(a, b, collapse, mode, form): *)
(*    the reference when Mode = "design", the relation OBSERVED on the     *)
(*    real pg.diff (all ordered pairs x 4 collapse options x 3 modes x     *)
(*    flatten on/off, written by pgverif/diffspec.py) when "observed".     *)
(* 4. A state machine: PickLeft / PickRight / PickOption choose a cell (the*)
(*    laws are invariants of that state), then Patch applies the reported  *)
(*    differences one at a time, in EVERY order, to a generic tree of the  *)
(*    left value; when nothing is left to apply the tree must be the right *)
(*    value (PatchDone) and every pending entry must stay applicable.      *)
(*                                                                         *)
(* Encoding (TLC cannot compare a string with an int): a value is          *)
(* <<tag, payload>>, tags "mis" (Diff.MISSING) "none" "bool" "int" "flt"   *)
(* (payload = twice the value) "str" (index into StrTable) "list" "dict"   *)
(* (sequence of <<key, value>> in insertion order) "obj" (<<class, field   *)
(* values in declaration order>>) "cls" (a class object, as reported under *)
(* `_type`).  Keys are ints: 1..3 = 'a','b','c', 11..13 = 'x','y','z',     *)
(* 100 + i = list index i, 99 = '_type'.  Classes: 1 A, 2 B(A), 3 C,        *)
(* 5 dict, 6 pg.Dict, 7 pg.List (what Diff uses for every list node).      *)
(***************************************************************************)
EXTENDS Integers, Sequences, FiniteSets, TLC, SequencesExt, Json, IOUtils

CONSTANTS Tier,       \* "quick" | "thorough": size of the universe
          Mode,       \* "design": entries = reference; "observed": entries observed on the real code
          SameRule    \* "coded" | "intended": rule of mode 'same' in the reference

VARIABLES i, j,       \* the ordered pair under examination (0 = not chosen yet)
          opt,        \* <<collapse option, form>> or <<>>
          ph,         \* "pick" | "laws" | "patch"
          cur,        \* generic tree being patched
          todo        \* entries of the diff not applied yet

vars == <<i, j, opt, ph, cur, todo>>

-----------------------------------------------------------------------------
(* Values *)
MISv == <<"mis", 0>>
NONEv == <<"none", 0>>
BADv == <<"bad", 0>>
Bv(b) == <<"bool", b>>
Iv(n) == <<"int", n>>
Fv(h) == <<"flt", h>>
Sv(k) == <<"str", k>>
Lv(s) == <<"list", s>>
Dv(s) == <<"dict", s>>
Ov(k, s) == <<"obj", <<k, s>>>>
Cv(k) == <<"cls", k>>

KA == 1
KB == 2
KC == 3
FX == 11
FY == 12
FZ == 13
TYPE == 99
Idx(n) == 100 + n
CA == 1
CB == 2
CC == 3
CDICT == 5
CPGDICT == 6
CLIST == 7
Fields(k) == IF k = CC THEN <<FZ>> ELSE <<FX, FY>>

Tag(v) == v[1]
IsMis(v) == Tag(v) = "mis"
IsNum(v) == Tag(v) \in {"bool", "int", "flt"}
Num(v) == IF Tag(v) = "flt" THEN v[2] ELSE 2 * v[2]          \* twice the numeric value
IsList(v) == Tag(v) = "list"
IsDict(v) == Tag(v) = "dict"
IsObj(v) == Tag(v) = "obj"
IsCont(v) == Tag(v) \in {"list", "dict", "obj"}
\* the members of a container, as a sequence of <<key, child>> in the container's own order
Items(v) ==
  CASE IsList(v) -> [k \in 1..Len(v[2]) |-> <<Idx(k - 1), v[2][k]>>]
    [] IsDict(v) -> v[2]
    [] IsObj(v) -> [k \in 1..Len(v[2][2]) |-> <<Fields(v[2][1])[k], v[2][2][k]>>]
    [] OTHER -> <<>>
KeySet(v) == {Items(v)[k][1] : k \in 1..Len(Items(v))}
Child(v, key) ==
  LET it == Items(v)
      ks == {k \in 1..Len(it) : it[k][1] = key}
  IN IF ks = {} THEN MISv ELSE it[CHOOSE k \in ks : TRUE][2]
\* class of a container; pg = "lists and dicts here are pg.List / pg.Dict"
ClsOf(v, pg) == CASE IsList(v) -> CLIST [] IsDict(v) -> (IF pg THEN CPGDICT ELSE CDICT) [] IsObj(v) -> v[2][1] [] OTHER -> 0
DictFam(k) == k \in {CDICT, CPGDICT}

RECURSIVE At(_, _)
\* the value at key path p (what KeyPath.query finds), MISSING when the path does not exist
At(v, p) == IF p = <<>> THEN v ELSE At(Child(v, Head(p)), Tail(p))
RECURSIVE PgAt(_, _, _)
\* containers below an object are always symbolic
PgAt(v, pg, p) == IF p = <<>> THEN pg ELSE PgAt(Child(v, Head(p)), pg \/ IsObj(v), Tail(p))

RECURSIVE EqV(_, _)
\* equality as pg.eq / == see it: numbers by value across types, dicts regardless of insertion order and flavour
EqV(x, y) ==
  IF IsNum(x) /\ IsNum(y) THEN Num(x) = Num(y)
  ELSE IF Tag(x) # Tag(y) THEN FALSE
  ELSE CASE IsList(x) -> /\ Len(x[2]) = Len(y[2])
                         /\ \A k \in 1..Len(x[2]) : EqV(x[2][k], y[2][k])
         [] IsDict(x) -> /\ KeySet(x) = KeySet(y)
                         /\ \A key \in KeySet(x) : EqV(Child(x, key), Child(y, key))
         [] IsObj(x) -> /\ x[2][1] = y[2][1]
                        /\ \A k \in 1..Len(x[2][2]) : EqV(x[2][2][k], y[2][2][k])
         [] OTHER -> x[2] = y[2]

RECURSIVE Norm(_)
\* identity up to the insertion order of dicts (numbers stay typed)
Norm(v) ==
  CASE IsList(v) -> Lv([k \in 1..Len(v[2]) |-> Norm(v[2][k])] \o <<>>)
    [] IsDict(v) -> Dv(SortSeq([k \in 1..Len(v[2]) |-> <<v[2][k][1], Norm(v[2][k][2])>>] \o <<>>,
                               LAMBDA p, q : p[1] < q[1]))
    [] IsObj(v) -> Ov(v[2][1], [k \in 1..Len(v[2][2]) |-> Norm(v[2][2][k])] \o <<>>)
    [] OTHER -> v
SameV(x, y) == Norm(x) = Norm(y)

RECURSIVE AtomPaths(_)
\* key paths of the leaves that are not containers (empty containers have none)
AtomPaths(v) ==
  IF IsCont(v)
  THEN UNION {{<<Items(v)[k][1]>> \o q : q \in AtomPaths(Items(v)[k][2])} : k \in 1..Len(Items(v))}
  ELSE {<<>>}

-----------------------------------------------------------------------------
(* Options *)
Collapses == <<"same_type", "all", "none", "fn">>    \* 'same_type', True, False, a callable (see Fn)
Modes == <<"diff", "same", "both">>
Forms == <<"flat", "nest">>                         \* flatten=True / flatten=False
IxOf(s, x) == CHOOSE k \in 1..Len(s) : s[k] = x
\* the callable of option "fn": collapse values of the same kind (two objects of any classes, two dicts, two lists)
Fn(x, y) == (IsObj(x) /\ IsObj(y)) \/ (IsDict(x) /\ IsDict(y)) \/ (IsList(x) /\ IsList(y))

\* whether two different values are walked member by member (x, y differ and neither is MISSING)
Collapse(x, px, y, py, cc) ==
  IF IsDict(x) /\ IsDict(y) THEN TRUE
  ELSE IF IsList(x) \/ IsList(y) THEN IsList(x) /\ IsList(y)
  ELSE IF IsCont(x) /\ IsCont(y)
  THEN CASE cc = "same_type" -> ClsOf(x, px) = ClsOf(y, py)
         [] cc = "all" -> TRUE
         [] cc = "none" -> FALSE
         [] OTHER -> Fn(x, y)
  ELSE FALSE

\* what the documentation fixes about that decision (everything else is a don't-care):
MustCollapse(x, px, y, py, cc) ==
  \/ IsList(x) /\ IsList(y) /\ (cc \in {"all", "fn"} \/ (cc = "same_type" /\ px = py))
  \/ IsDict(x) /\ IsDict(y) /\ (cc \in {"all", "fn"} \/ (cc = "same_type" /\ px = py))
  \/ IsObj(x) /\ IsObj(y) /\ (cc \in {"all", "fn"} \/ (cc = "same_type" /\ x[2][1] = y[2][1]))
  \/ cc = "all" /\ ((IsObj(x) /\ IsDict(y)) \/ (IsDict(x) /\ IsObj(y)))
MustNotCollapse(x, px, y, py, cc) ==
  \/ ~IsCont(x) \/ ~IsCont(y)
  \/ IsList(x) # IsList(y)
  \/ /\ cc \in {"same_type", "none"}
     /\ ClsOf(x, px) # ClsOf(y, py)
     /\ ~(DictFam(ClsOf(x, px)) /\ DictFam(ClsOf(y, py)))
  \/ cc = "fn" /\ ~Fn(x, y)

-----------------------------------------------------------------------------
(* Reference: the entries of the walk *)
Ent(p, l, r) == [p |-> p, l |-> l, r |-> r]
RECURSIVE Walk(_, _, _, _, _, _)
Walk(x, px, y, py, cc, pfx) ==
  IF IsMis(x) \/ IsMis(y) THEN {Ent(pfx, x, y)}
  ELSE IF EqV(x, y) THEN {Ent(pfx, x, y)}
  ELSE IF ~Collapse(x, px, y, py, cc) THEN {Ent(pfx, x, y)}
  ELSE (UNION {Walk(Child(x, k), px \/ IsObj(x), Child(y, k), py \/ IsObj(y), cc, Append(pfx, k)) :
                 k \in KeySet(x) \cup KeySet(y)})
       \cup (IF IsList(x) THEN {} ELSE {Ent(Append(pfx, TYPE), Cv(ClsOf(x, px)), Cv(ClsOf(y, py)))})

IsT(e) == Len(e.p) > 0 /\ e.p[Len(e.p)] = TYPE                  \* a type entry
IsD(e) == ~IsT(e) /\ ~EqV(e.l, e.r)                             \* a differing location
IsS(e) == ~IsT(e) /\ EqV(e.l, e.r)                              \* a same location
NonT(E) == {e \in E : ~IsT(e)}
\* what is compared between forms and with the reference: locations, and type entries that report two different
\* classes other than dict-versus-pg.Dict (type entries of equal classes are bookkeeping of modes 'same'/'both')
Core(E) == {e \in E : ~IsT(e) \/ (e.l # e.r /\ ~(DictFam(e.l[2]) /\ DictFam(e.r[2])))}
NormE(E) == {Ent(e.p, Norm(e.l), Norm(e.r)) : e \in E}
Swap(E) == {Ent(e.p, e.r, e.l) : e \in E}

-----------------------------------------------------------------------------
(* The universe *)
Thorough == Tier = "thorough"
I1 == Iv(1)
I2 == Iv(2)
F1 == Fv(2)                      \* 1.0
S1 == Sv(1)
D1(k, v) == Dv(<<<<k, v>>>>)
D2(k1, v1, k2, v2) == Dv(<<<<k1, v1>>, <<k2, v2>>>>)
D3(k1, v1, k2, v2, k3, v3) == Dv(<<<<k1, v1>>, <<k2, v2>>, <<k3, v3>>>>)
OA(x, y) == Ov(CA, <<x, y>>)
OB(x, y) == Ov(CB, <<x, y>>)
OC(z) == Ov(CC, <<z>>)

Atoms == {NONEv, I1, I2, F1, S1} \cup (IF Thorough THEN {Bv(1), Iv(3), Sv(2)} ELSE {})
Lists1 == {Lv(<<>>), Lv(<<I1>>), Lv(<<I2>>), Lv(<<I1, I2>>), Lv(<<NONEv>>)}
          \cup (IF Thorough THEN {Lv(<<I1, I1>>), Lv(<<I2, I1>>), Lv(<<F1>>), Lv(<<I1, NONEv>>), Lv(<<S1>>), Lv(<<I2, I2>>)}
                ELSE {})
Dicts1 == {Dv(<<>>), D1(KA, I1), D1(KA, I2), D2(KA, I1, KB, I2), D2(KB, I2, KA, I1),
           D3(KA, I1, KB, I2, KC, I1), D3(KC, I1, KA, I1, KB, I2), D2(FX, I1, FY, I2), D1(FZ, I1)}
          \cup (IF Thorough THEN {D1(KB, I1), D2(KA, I1, KB, I1), D2(KA, I2, KB, I2), D2(KB, I1, KA, I1), D3(KA, I1, KB, I2, KC, I2), D2(FY, I2, FX, I1),
                                  D2(FX, I1, FY, I1), D1(KA, NONEv), D1(KC, I1), D3(KB, I2, KC, I1, KA, I1)} ELSE {})
Objs1 == {OA(I1, I2), OA(I1, I1), OA(NONEv, I2), OB(I1, I2), OC(I1), OC(I2)}
         \cup (IF Thorough THEN {OA(I2, I2), OB(I1, I1), OA(I2, I1), OB(I2, I2), OC(NONEv), OA(S1, F1), OB(NONEv, I2)} ELSE {})
\* depth-1 containers that are nested once more
Inner == {Lv(<<I1>>), Lv(<<I1, I2>>), D1(KA, I1), D2(KA, I1, KB, I2), D2(KB, I2, KA, I1), OA(I1, I2), OC(I1)}
         \cup (IF Thorough THEN {Lv(<<>>), Lv(<<I2>>), Dv(<<>>), D1(KA, I2), OB(I1, I2), OA(I1, I1), OC(I2),
                                 D2(FX, I1, FY, I2)} ELSE {})
InnerSmall == {Lv(<<I1, I2>>), D2(KA, I1, KB, I2), OA(I1, I2)}
Lists2 == {Lv(<<x>>) : x \in Inner} \cup {Lv(<<x, I1>>) : x \in InnerSmall}
          \cup (IF Thorough THEN {Lv(<<I1, x>>) : x \in InnerSmall} \cup {Lv(<<x, y>>) : x \in InnerSmall, y \in InnerSmall}
                ELSE {})
Dicts2 == {D1(KA, x) : x \in Inner} \cup {D2(KA, x, KB, I1) : x \in InnerSmall}
          \cup (IF Thorough THEN {D2(KB, I1, KA, x) : x \in InnerSmall} \cup {D2(KA, x, KB, y) : x \in InnerSmall, y \in InnerSmall}
                ELSE {})
Objs2 == {OA(x, I1) : x \in Inner} \cup {OA(I1, x) : x \in InnerSmall} \cup {OB(x, I1) : x \in InnerSmall}
         \cup {OC(x) : x \in (IF Thorough THEN Inner ELSE InnerSmall)}
         \cup (IF Thorough THEN {OA(x, y) : x \in InnerSmall, y \in InnerSmall} \cup {OB(I1, x) : x \in InnerSmall} ELSE {})
\* containers that also exist as pg.List / pg.Dict (everything below an object is symbolic anyway)
PgToo == IF Thorough THEN Lists1 \cup Dicts1 \cup Lists2 \cup Dicts2
         ELSE {Lv(<<>>), Lv(<<I1>>), Lv(<<I1, I2>>), Dv(<<>>), D1(KA, I1), D2(KA, I1, KB, I2), D2(KB, I2, KA, I1)}
              \cup {Lv(<<x>>) : x \in InnerSmall} \cup {D1(KA, x) : x \in InnerSmall}

UEnt(v, pg) == [v |-> v, pg |-> pg]
U == SetToSeq({UEnt(v, 0) : v \in Atoms})
     \o SetToSeq({UEnt(v, 0) : v \in Lists1 \cup Dicts1})
     \o SetToSeq({UEnt(v, 1) : v \in Objs1})
     \o SetToSeq({UEnt(v, 0) : v \in Lists2 \cup Dicts2})
     \o SetToSeq({UEnt(v, 1) : v \in Objs2})
     \o SetToSeq({UEnt(v, 1) : v \in PgToo})
N == Len(U)
Ix == 1..N
V(a) == U[a].v
Pg(a) == U[a].pg = 1

-----------------------------------------------------------------------------
(* Reference entry sets *)
All(a, b, cc) == Walk(V(a), Pg(a), V(b), Pg(b), cc, <<>>)
\* The value returned for the root is returned whatever the mode (pg.diff(1, 2, mode='same') is Diff(1, 2), pinned
\* by the unit tests), except that mode 'diff' turns "equal" into the empty Diff().
RefEntries(a, b, cc, m) ==
  LET W == All(a, b, cc) IN
  IF \E e \in W : e.p = <<>>
  THEN (IF m = "diff" /\ \A e \in W : IsS(e) THEN {} ELSE W)
  ELSE CASE m = "diff" -> {e \in W : IsD(e) \/ (IsT(e) /\ e.l # e.r)}
         [] m = "same" -> IF SameRule = "coded"
                          THEN {e \in W : (IsS(e) /\ Len(e.p) <= 1) \/ (IsT(e) /\ Len(e.p) = 1)}
                          ELSE {e \in W : IsS(e) \/ IsT(e)}
         [] OTHER -> W
\* the nodes walked member by member
Visited(E) == UNION {{SubSeq(e.p, 1, k) : k \in 0..(Len(e.p) - 1)} : e \in E}

\* zones in which the reference is not determined by the documentation: numbers equal across types at the same
\* position; dict versus pg.Dict and list versus pg.List under 'same_type'; collapse=False as a whole
RECURSIVE Undet(_, _, _, _, _)
Undet(x, px, y, py, cc) ==
  IF IsMis(x) \/ IsMis(y) THEN FALSE
  ELSE IF IsNum(x) /\ IsNum(y) THEN Tag(x) # Tag(y) /\ Num(x) = Num(y)
  ELSE IF ~(IsCont(x) /\ IsCont(y)) THEN FALSE
  ELSE IF ~EqV(x, y) /\ ~Collapse(x, px, y, py, cc) THEN FALSE
  ELSE \/ ~EqV(x, y) /\ Tag(x) = Tag(y) /\ ~IsObj(x) /\ px # py /\ cc = "same_type"
       \/ \E k \in KeySet(x) \cap KeySet(y) :
            Undet(Child(x, k), px \/ IsObj(x), Child(y, k), py \/ IsObj(y), cc)
Determined(a, b, cc) == cc # "none" /\ ~Undet(V(a), Pg(a), V(b), Pg(b), cc)

-----------------------------------------------------------------------------
(* The observed relation (written by pgverif/diffspec.py) *)
Obs == IF Mode = "observed" THEN JsonDeserialize(IOEnv.OBS_FILE) ELSE <<>>
Observed == Mode = "observed"
Combo(cc, m, f) == ((IxOf(Collapses, cc) - 1) * 3 + (IxOf(Modes, m) - 1)) * 2 + IxOf(Forms, f)
ObsRes(a, b, cc, m, f) == Obs.res[Obs.cell[a][b][Combo(cc, m, f)]]
ObsEntries(a, b, cc, m, f) ==
  LET r == ObsRes(a, b, cc, m, f)
  IN {Ent(r.e[k][1], Obs.vals[r.e[k][2]], Obs.vals[r.e[k][3]]) : k \in 1..Len(r.e)}

Bit(b) == IF b THEN 1 ELSE 0
\* the entry sets the laws are evaluated on
E(a, b, cc, m, f) == IF Observed THEN ObsEntries(a, b, cc, m, f) ELSE RefEntries(a, b, cc, m)
Ok(a, b, cc, m, f) == ~Observed \/ ObsRes(a, b, cc, m, f).st = 0          \* the call returned
\* "the result is falsy": bool(Diff) / an empty dict
HasDiff(ES) == \E e \in Core(ES) : IsT(e) \/ ~EqV(e.l, e.r)
NoDiffFlag(a, b, cc, m, f) == IF Observed THEN ObsRes(a, b, cc, m, f).nd ELSE Bit(~HasDiff(RefEntries(a, b, cc, m)))
\* "the flattened result holds a Diff that is not a leaf"
NotFlatFlag(a, b, cc, m) == IF Observed THEN ObsRes(a, b, cc, m, "flat").fl ELSE 0
EqT(a, b) == IF Observed THEN Obs.eq[a][b] ELSE Bit(EqV(V(a), V(b)))       \* pg.eq(a, b)
PureT(a, b) == IF Observed THEN Obs.pure[a][b] ELSE 1                     \* to_json of a and b unchanged by every call

-----------------------------------------------------------------------------
(* The laws.  Predicates of the two values and entry sets; LawViol evaluates all of them for one (a, b, collapse) *)

\* every reported location holds what a and b hold there; a type entry reports the classes of the two nodes
Sound(a, b, ES) ==
  \A e \in ES :
    IF IsT(e)
    THEN LET p == Front(e.p) IN
         /\ IsCont(At(V(a), p)) /\ IsCont(At(V(b), p))
         /\ e.l = Cv(ClsOf(At(V(a), p), PgAt(V(a), Pg(a), p)))
         /\ e.r = Cv(ClsOf(At(V(b), p), PgAt(V(b), Pg(b), p)))
    ELSE /\ SameV(e.l, At(V(a), e.p)) /\ SameV(e.r, At(V(b), e.p))
         /\ ~(IsMis(e.l) /\ IsMis(e.r))
\* mode 'diff' reports only differences, mode 'same' only same values
KindOK(m, ES) == /\ m = "diff" => \A e \in NonT(ES) : ~EqV(e.l, e.r)
                 /\ m = "same" => \A e \in NonT(ES) : e.p = <<>> \/ EqV(e.l, e.r)     \* (the root: don't-care)
\* no location is reported below another one
PrefixFree(ES) == \A e1 \in NonT(ES), e2 \in NonT(ES) : e1 # e2 => ~IsPrefix(e1.p, e2.p)
\* every leaf at which a and b differ lies at or below a reported difference
Complete(a, b, DS) ==
  \A q \in AtomPaths(V(a)) \cup AtomPaths(V(b)) :
    ~EqV(At(V(a), q), At(V(b), q)) => \E e \in NonT(DS) : IsPrefix(e.p, q)
\* the walk descends exactly where the documentation says so: a reported difference is not a pair that must be
\* collapsed, a walked node is not a pair that must not be
Descent(a, b, cc, ES) ==
  /\ \A e \in NonT(ES) : EqV(e.l, e.r) \/ IsMis(e.l) \/ IsMis(e.r)
                        \/ ~MustCollapse(e.l, PgAt(V(a), Pg(a), e.p), e.r, PgAt(V(b), Pg(b), e.p), cc)
  /\ \A p \in Visited(ES) :
       LET x == At(V(a), p)
           y == At(V(b), p)
       IN ~MustNotCollapse(x, PgAt(V(a), Pg(a), p), y, PgAt(V(b), Pg(b), p), cc)
\* 'diff' and 'same' partition the locations of 'both', and every atom leaf of either value lies at or below
\* exactly one of them
ModePartition(a, b, DS, SS, BS) ==
  /\ NonT(BS) = NonT(DS) \cup NonT(SS)
  /\ \A e \in NonT(DS) \cap NonT(SS) : e.p = <<>>                      \* (a differing root in mode 'same': don't-care)
  /\ \A q \in AtomPaths(V(a)) \cup AtomPaths(V(b)) :
       Cardinality({e \in NonT(DS) \cup NonT(SS) : IsPrefix(e.p, q)}) = 1

MF == {<<m, f>> : m \in ToSet(Modes), f \in ToSet(Forms)}
\* the set of violated law instances <<law, mode, form>> ("-" where the law does not depend on it)
LawViol(a, b, cc) ==
  LET Dfl == E(a, b, cc, "diff", "flat")
      Dne == E(a, b, cc, "diff", "nest")
      Sfl == E(a, b, cc, "same", "flat")
      Sne == E(a, b, cc, "same", "nest")
      Bfl == E(a, b, cc, "both", "flat")
      Bne == E(a, b, cc, "both", "nest")
      Sel(m, f) == CASE m = "diff" -> (IF f = "flat" THEN Dfl ELSE Dne)
                     [] m = "same" -> (IF f = "flat" THEN Sfl ELSE Sne)
                     [] OTHER -> (IF f = "flat" THEN Bfl ELSE Bne)
      ok(m, f) == Ok(a, b, cc, m, f)
      okf(f) == ok("diff", f) /\ ok("same", f) /\ ok("both", f)
      FS == ToSet(Forms)
      MS == ToSet(Modes)
  IN  {<<"NoRaise", mf[1], mf[2]>> : mf \in {mf \in MF : ~ok(mf[1], mf[2])}}
      \cup (IF EqT(a, b) \in {0, 1} THEN {} ELSE {<<"NoRaise", "eq", "-">>})
      \cup {<<"Purity", "-", "-">> : x \in {1} \ {PureT(a, b)}}
      \cup {<<"FlatIsFlat", m, "flat">> : m \in {m \in MS : ok(m, "flat") /\ NotFlatFlag(a, b, cc, m) # 0}}
      \* (1) no difference reported iff pg.eq
      \cup {<<"DiffEmptyIffEq", "diff", f>> :
              f \in {f \in FS : ok("diff", f) /\ ~(/\ (Core(Sel("diff", f)) = {}) = (EqT(a, b) = 1)
                                                    /\ NoDiffFlag(a, b, cc, "diff", f) = EqT(a, b))}}
      \cup {<<"DiffEmptyIffEq", "both", "nest">> :
              x \in {x \in {1} : ok("both", "nest") /\ NoDiffFlag(a, b, cc, "both", "nest") # EqT(a, b)}}
      \* (2) diff(b, a) is diff(a, b) with left and right swapped
      \cup {<<"Symmetric", mf[1], mf[2]>> :
              mf \in {mf \in MF : /\ ok(mf[1], mf[2]) /\ Ok(b, a, cc, mf[1], mf[2])
                                  /\ E(b, a, cc, mf[1], mf[2]) # Swap(Sel(mf[1], mf[2]))}}
      \* (3) locations are exact
      \cup {<<"Sound", mf[1], mf[2]>> : mf \in {mf \in MF : ok(mf[1], mf[2]) /\ ~Sound(a, b, Sel(mf[1], mf[2]))}}
      \cup {<<"KindOK", mf[1], mf[2]>> : mf \in {mf \in MF : ok(mf[1], mf[2]) /\ ~KindOK(mf[1], Sel(mf[1], mf[2]))}}
      \cup {<<"PrefixFree", mf[1], mf[2]>> : mf \in {mf \in MF : ok(mf[1], mf[2]) /\ ~PrefixFree(Sel(mf[1], mf[2]))}}
      \cup {<<"Complete", "diff", f>> : f \in {f \in FS : ok("diff", f) /\ ~Complete(a, b, Sel("diff", f))}}
      \cup {<<"Descent", mf[1], mf[2]>> : mf \in {mf \in MF : ok(mf[1], mf[2]) /\ ~Descent(a, b, cc, Sel(mf[1], mf[2]))}}
      \* (4) the modes are consistent
      \cup {<<"ModePartition", "-", f>> :
              f \in {f \in FS : okf(f) /\ ~ModePartition(a, b, Sel("diff", f), Sel("same", f), Sel("both", f))}}
      \* (6) the nested result, flattened, is the flattened result
      \cup {<<"NestedAgreesFlat", m, "-">> :
              m \in {m \in MS : ok(m, "flat") /\ ok(m, "nest") /\ Core(Sel(m, "flat")) # Core(Sel(m, "nest"))}}
      \* the reference itself, where the documentation determines it
      \cup (IF Observed /\ Determined(a, b, cc)
            THEN {<<"AgreesWithRef", mf[1], mf[2]>> :
                    mf \in {mf \in MF : /\ ok(mf[1], mf[2])
                                        /\ LET strip(ES) == IF mf[1] = "same"
                                                            THEN {e \in NonT(ES) : e.p # <<>> \/ EqV(e.l, e.r)}
                                                            ELSE Core(ES)
                                           IN NormE(strip(Sel(mf[1], mf[2]))) # NormE(strip(RefEntries(a, b, cc, mf[1])))}}
            ELSE {})

\* zones of the findings recorded against the real code (G01-F1..F4); a violation in zone "-" is unlisted
ZoneOf(v, a, b, cc) ==
  LET law == v[1]
      m == v[2]
      f == v[3]
      W == All(a, b, cc)
      nodes == Visited(W)
      listNode(p) == IsList(At(V(a), p))
      \* a dict / object walked below a walked list
      contUnderList == \E p \in nodes : ~listNode(p) /\ \E k \in 0..(Len(p) - 1) : listNode(SubSeq(p, 1, k))
      \* a dict / object on the left meets a pg.List on the right under collapse=True
      symVsPgList == cc = "all" /\ \E e \in NonT(W) : (IsDict(e.l) \/ IsObj(e.l)) /\ IsList(e.r) /\ PgAt(V(b), Pg(b), e.p)
      pgListVsSym == cc = "all" /\ \E e \in NonT(W) : (IsDict(e.r) \/ IsObj(e.r)) /\ IsList(e.l) /\ PgAt(V(a), Pg(a), e.p)
      sameCoded(ff) == LET SO == NormE(NonT(E(a, b, cc, "same", ff)))
                           coded == NormE({e \in W : IsS(e) /\ Len(e.p) <= 1})
                           intended == NormE({e \in W : IsS(e)})
                       IN SO = coded /\ coded # intended
  IN CASE law = "NoRaise" /\ f = "flat" /\ m # "eq" /\ contUnderList -> "flat-container-under-list"
       [] law \in {"NoRaise", "Descent", "AgreesWithRef", "Sound", "NestedAgreesFlat"} /\ m # "eq" /\ symVsPgList -> "sym-vs-pglist"
       [] law = "Symmetric" /\ (symVsPgList \/ pgListVsSym) -> "sym-vs-pglist"
       [] law = "FlatIsFlat" /\ (\E p \in nodes : listNode(p)) -> "list-node"
       [] law = "ModePartition" /\ Ok(a, b, cc, "same", f) /\ sameCoded(f) -> "same-below-diff"
       [] law = "AgreesWithRef" /\ m = "same" /\ sameCoded(f) -> "same-below-diff"
       [] OTHER -> "-"

-----------------------------------------------------------------------------
(* Generic trees and patching: an entry of the diff applied to the left value *)
RECURSIVE Gen(_)
\* <<"n", class, members sorted by key>>; every dict is class 5 here (flavour is not part of the content)
Gen(v) ==
  IF IsCont(v)
  THEN <<"n", IF IsDict(v) THEN CDICT ELSE ClsOf(v, FALSE),
         SortSeq([k \in 1..Len(Items(v)) |-> <<Items(v)[k][1], Gen(Items(v)[k][2])>>] \o <<>>, LAMBDA p, q : p[1] < q[1])>>
  ELSE v
IsNode(g) == Tag(g) = "n"
GKeys(g) == {g[3][k][1] : k \in 1..Len(g[3])}
GChild(g, key) == LET ks == {k \in 1..Len(g[3]) : g[3][k][1] = key}
                  IN IF ks = {} THEN MISv ELSE g[3][CHOOSE k \in ks : TRUE][2]
RECURSIVE GAt(_, _)
GAt(g, p) == IF p = <<>> THEN g ELSE IF IsNode(g) THEN GAt(GChild(g, Head(p)), Tail(p)) ELSE MISv
RECURSIVE GSet(_, _, _)
\* writes val at path p (MISSING = delete the member; a path ending in `_type` = change the class of the node)
GSet(g, p, val) ==
  IF p = <<>> THEN val
  ELSE IF ~IsNode(g) THEN BADv
  ELSE IF p = <<TYPE>> THEN <<"n", IF DictFam(val[2]) THEN CDICT ELSE val[2], g[3]>>
  ELSE LET k == Head(p)
           new == GSet(GChild(g, k), Tail(p), val)
           rest == SelectSeq(g[3], LAMBDA it : it[1] # k)
       IN IF new = BADv THEN BADv
          ELSE <<"n", g[2], IF IsMis(new) THEN rest
                            ELSE SortSeq(Append(rest, <<k, new>>), LAMBDA u, w : u[1] < w[1])>>
RECURSIVE EqG(_, _)
EqG(g, h) ==
  IF IsNode(g) /\ IsNode(h)
  THEN g[2] = h[2] /\ GKeys(g) = GKeys(h) /\ \A k \in GKeys(g) : EqG(GChild(g, k), GChild(h, k))
  ELSE IF IsNode(g) \/ IsNode(h) \/ g = BADv \/ h = BADv THEN FALSE
  ELSE EqV(g, h)
PatchVal(e) == IF IsT(e) THEN e.r ELSE Gen(e.r)

-----------------------------------------------------------------------------
(* The state machine *)
Init == i = 0 /\ j = 0 /\ opt = <<>> /\ ph = "pick" /\ cur = MISv /\ todo = {}
PickLeft == i = 0 /\ i' \in Ix /\ UNCHANGED <<j, opt, ph, cur, todo>>
PickRight == i > 0 /\ j = 0 /\ j' \in Ix /\ UNCHANGED <<i, opt, ph, cur, todo>>
\* a cell is chosen; the differences pg.diff(a, b, collapse, mode='diff', flatten) reports are to be applied to a
PickOption ==
  /\ j > 0 /\ opt = <<>>
  /\ \E cc \in ToSet(Collapses), f \in ToSet(Forms) :
       /\ opt' = <<cc, f>>
       /\ IF Ok(i, j, cc, "diff", f)
          THEN cur' = Gen(V(i)) /\ todo' = Core(E(i, j, cc, "diff", f))
          ELSE cur' = Gen(V(j)) /\ todo' = {}          \* the call raised: nothing to patch (NoRaise reports it)
  /\ ph' = "laws"
  /\ UNCHANGED <<i, j>>
Patch ==
  /\ opt # <<>>
  /\ \E e \in todo : cur' = GSet(cur, e.p, PatchVal(e)) /\ todo' = todo \ {e}
  /\ ph' = "patch"
  /\ UNCHANGED <<i, j, opt>>
Next == PickLeft \/ PickRight \/ PickOption \/ Patch
Spec == Init /\ [][Next]_vars
\* the cells without the patch machine (the as-coded design run: patching only uses mode 'diff', which SameRule leaves alone)
SpecCells == Init /\ [][PickLeft \/ PickRight \/ PickOption]_vars

(* Invariants *)
\* the laws are evaluated once per (a, b, collapse): in the "laws" state of form "flat"
AtLaws == ph = "laws" /\ opt[2] = "flat"
LawsHold == AtLaws => LawViol(i, j, opt[1]) = {}
LawsHoldOutsideZones == AtLaws => \A v \in LawViol(i, j, opt[1]) : ZoneOf(v, i, j, opt[1]) # "-"
\* (7) applying all reported differences, in any order, to the left value yields the right value
PatchDone == (opt # <<>> /\ todo = {}) => EqG(cur, Gen(V(j)))
\* every pending entry stays applicable: the node it writes into exists
Applicable == opt # <<>> => cur # BADv /\ \A e \in todo : e.p = <<>> \/ IsNode(GAt(cur, Front(e.p)))

(* Diagnosis: always TRUE; prints witnesses <<"VIOL", law, a, b, collapse, mode, form, zone>>, at most PrintCap per   *)
(* worker and (law, zone); registers 1..: per-worker counters                                                   *)
LawNames == <<"NoRaise", "Purity", "FlatIsFlat", "DiffEmptyIffEq", "Symmetric", "Sound", "KindOK", "PrefixFree",
              "Complete", "Descent", "ModePartition", "NestedAgreesFlat", "AgreesWithRef", "PatchDone", "Applicable">>
ZoneNames == <<"-", "flat-container-under-list", "sym-vs-pglist", "list-node", "same-below-diff">>
Reg(law, zone) == (IxOf(LawNames, law) - 1) * Len(ZoneNames) + IxOf(ZoneNames, zone)
NRegs == Len(LawNames) * Len(ZoneNames)
PrintCap == 40
Report(law, a, b, cc, m, f, zone) ==
  LET r == Reg(law, zone) IN
  IF TLCGet(r) < PrintCap
  THEN PrintT(<<"VIOL", law, a, b, cc, m, f, zone>>) /\ TLCSet(r, TLCGet(r) + 1)
  ELSE TRUE
Diagnose ==
  /\ AtLaws => \A v \in LawViol(i, j, opt[1]) : Report(v[1], i, j, opt[1], v[2], v[3], ZoneOf(v, i, j, opt[1]))
  /\ PatchDone \/ Report("PatchDone", i, j, opt[1], "diff", opt[2], "-")
  /\ Applicable \/ Report("Applicable", i, j, opt[1], "diff", opt[2], "-")

(* Vacuity / design facts, evaluated once *)
UniverseOK ==
  /\ N = Cardinality({U[a] : a \in Ix})                                                   \* no duplicates
  /\ \E a \in Ix, b \in Ix : a # b /\ EqV(V(a), V(b))                                     \* equal but distinct entries
  /\ \E a \in Ix, b \in Ix : \E e \in All(a, b, "same_type") : IsMis(e.l) /\ Idx(0) <= Last(e.p)   \* list length difference
  /\ \E a \in Ix, b \in Ix : \E e \in All(a, b, "same_type") : IsMis(e.r) /\ Last(e.p) < TYPE       \* missing member
  /\ \E a \in Ix, b \in Ix : \E e \in All(a, b, "all") : IsT(e) /\ e.l = Cv(CA) /\ e.r = Cv(CC)     \* type difference
  /\ \E a \in Ix, b \in Ix : \E e \in All(a, b, "same_type") : Len(e.p) = 2 /\ IsD(e)                  \* depth 2
  /\ \E a \in Ix, b \in Ix : ~Determined(a, b, "same_type")
  /\ \E a \in Ix, b \in Ix : All(a, b, "all") # All(a, b, "same_type") /\ All(a, b, "fn") # All(a, b, "all")
=============================================================================
