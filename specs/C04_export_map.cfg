INIT Init
NEXT Next
CONSTANT U = "map"
