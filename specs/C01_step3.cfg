SPECIFICATION SpecFrom
CONSTANTS
  MaxNodes = 8
  Keys = {1, 2}
  Leafs = {101}
  Shapes = {200, 211, 220}
  MaxLen = 2
  Acts = {"clone", "json"}
  Mirror = FALSE
  MaxLevel = 2
  InitKinds <- IK_TDictList
  SimK = 0

