SPECIFICATION Spec
CONSTANTS
  Threads = {1, 2}
  Deep = 1
  MaxDepth = 3
  ShallowDepth = 3
  Fams <- OnlyCtx
  Mirror = FALSE
INVARIANT NestingRule
INVARIANT ViewIsProjection
INVARIANT TimeitOK
INVARIANT Narrowing
INVARIANT QuiescentIsDefault
PROPERTY Restores
PROPERTY Isolation
PROPERTY RefusedIsNoop
PROPERTY InnerFaultIsNoop
