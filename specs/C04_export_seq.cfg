INIT Init
NEXT Next
CONSTANT U = "seq"
