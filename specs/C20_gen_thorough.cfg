SPECIFICATION Spec
CONSTANTS
  MaxDepth = 3
