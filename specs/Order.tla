------------------------------- MODULE Order -------------------------------
(***************************************************************************)
(* Symbolic equality, hashing and ordering of PyGlove values (C06).        *)
(*                                                                         *)
(* 1. A finite universe U of values, defined by a grammar: the missing     *)
(*    marker, None, bools, ints, floats, strs, lists of <= 2 elements,     *)
(*    dicts over the keys 'a','b' in BOTH insertion orders, tuples of      *)
(*    numbers, objects of the classes A(x), B(A) (no extra field),         *)
(*    C(A, y), and nestings of these to depth 2, each container both as a  *)
(*    plain Python container and as pg.List / pg.Dict; plus "scan" values  *)
(*    (to depth 4) whose first position holds something that is pg.eq but  *)
(*    not == to its copy (an object of class D, or a container of one) and *)
(*    whose second position differs.                                       *)
(* 2. The documented rules of pg.eq / pg.lt / pg.hash as reference         *)
(*    operators (type-order table, first difference; the dict rule and the *)
(*    dict hash either as documented/coded - insertion order - or          *)
(*    canonical, switch `Canonical`).                                      *)
(* 3. The algebraic laws of the property as operators over a record `T`    *)
(*    of relation tables: the reference tables when Mode = "design" (the   *)
(*    documented design is model-checked), the tables OBSERVED on the real *)
(*    code and loaded from a JSON file when Mode = "observed".             *)
(* 4. A state machine that walks all pairs (the laws are invariants of a   *)
(*    pair state, triples are quantified inside) and an abstract insertion *)
(*    sort driven by T.lt whose result must be sorted for every pair and   *)
(*    agree, up to eq, with what the real `sorted()` returned.             *)
(*                                                                         *)
(* Value encoding: <<tag, payload>>; tags "mis" "none" "bool" "int" "flt"  *)
(* "str" "list" "tup" "dict" "obj".  Floats carry twice their value (3 =   *)
(* 1.5), strs an index into the lexicographically sorted table             *)
(* <<"", "a", "ab", "b">>; a dict payload is the sequence of <<key, value>>*)
(* in insertion order (keys are str indices); an obj payload is            *)
(* <<class, field values>> with class 1 = A, 2 = B(A), 3 = C(A), 4 = D (a   *)
(* class that does NOT opt into symbolic comparison for == / != / hash()).  *)
(* Table cells are ints: 0 = False, 1 = True, 2 = the call raised, 3 = the *)
(* call returned something that is not a bool.                             *)
(***************************************************************************)
EXTENDS Integers, Sequences, FiniteSets, TLC, SequencesExt, Json, IOUtils

CONSTANTS Tier,        \* "quick" | "thorough" : size of the universe
          Canonical,   \* FALSE: dict lt / pg.Dict hash in insertion order (documented, coded)
                       \* TRUE : on sorted keys (the repaired design)
          Mode         \* "design": T = reference tables; "observed": T = tables observed on the real code

VARIABLES i, j,        \* the pair under examination (0 = not chosen yet)
          sid, inp, out, bad   \* abstract sort: sample id, remaining input, sorted prefix, "a comparison raised"

vars == <<i, j, sid, inp, out, bad>>

-----------------------------------------------------------------------------
(* Values *)
MISv == <<"mis", 0>>
NONEv == <<"none", 0>>
Bv(b) == <<"bool", b>>
Iv(n) == <<"int", n>>
Fv(h) == <<"flt", h>>
Sv(k) == <<"str", k>>
Lv(s) == <<"list", s>>
Tv(s) == <<"tup", s>>
Dv(s) == <<"dict", s>>
Ov(c, s) == <<"obj", <<c, s>>>>

Tag(v) == v[1]
IsNum(v) == Tag(v) \in {"bool", "int", "flt"}
Num(v) == IF Tag(v) = "flt" THEN v[2] ELSE 2 * v[2]          \* twice the numeric value
IsAtom(v) == Tag(v) \in {"mis", "none", "bool", "int", "flt", "str"}
IsSeqLike(v) == Tag(v) \in {"list", "tup"}
Cls(v) == v[2][1]
Flds(v) == v[2][2]
DKeys(v) == [k \in 1..Len(v[2]) |-> v[2][k][1]]               \* keys in insertion order
DKeySet(v) == {v[2][k][1] : k \in 1..Len(v[2])}
DVal(v, key) == LET k == CHOOSE k \in 1..Len(v[2]) : v[2][k][1] = key IN v[2][k][2]
MinOf(S) == CHOOSE x \in S : \A y \in S : x <= y
\* the items of a dict in the order the comparison walks them
DItems(v) == IF Canonical THEN SortSeq(v[2], LAMBDA p, q : p[1] < q[1]) ELSE v[2]

-----------------------------------------------------------------------------
(* Reference semantics (documented rules) *)

RECURSIVE EqV(_, _)
EqV(x, y) ==
  IF IsNum(x) /\ IsNum(y) THEN Num(x) = Num(y)                \* Python: 1 == True == 1.0
  ELSE IF Tag(x) # Tag(y) THEN FALSE                          \* a tuple is not a list
  ELSE CASE Tag(x) \in {"mis", "none"} -> TRUE
         [] Tag(x) = "str" -> x[2] = y[2]
         [] IsSeqLike(x) -> /\ Len(x[2]) = Len(y[2])
                            /\ \A k \in 1..Len(x[2]) : EqV(x[2][k], y[2][k])
         [] Tag(x) = "dict" -> /\ DKeySet(x) = DKeySet(y)     \* key order is irrelevant for eq
                               /\ \A key \in DKeySet(x) : EqV(DVal(x, key), DVal(y, key))
         [] Tag(x) = "obj" -> /\ Cls(x) = Cls(y)
                              /\ Len(Flds(x)) = Len(Flds(y))
                              /\ \A k \in 1..Len(Flds(x)) : EqV(Flds(x)[k], Flds(y)[k])

\* the type-order table of the documentation: MISSING, None, numbers, str, list, tuple, (set,) dict,
\* then classes by qualified name (A < B < C < D)
TOrd(v) == CASE Tag(v) = "mis" -> 0 [] Tag(v) = "none" -> 1 [] IsNum(v) -> 2 [] Tag(v) = "str" -> 3
             [] Tag(v) = "list" -> 4 [] Tag(v) = "tup" -> 5 [] Tag(v) = "dict" -> 7
             [] Tag(v) = "obj" -> 10 + Cls(v)

RECURSIVE LtV(_, _), LtSeq(_, _)
\* first difference between two sequences of values
LtSeq(a, b) ==
  LET n == IF Len(a) < Len(b) THEN Len(a) ELSE Len(b)
      diff == {k \in 1..n : ~EqV(a[k], b[k])}
  IN IF diff = {} THEN Len(a) < Len(b) ELSE LtV(a[MinOf(diff)], b[MinOf(diff)])
LtV(x, y) ==
  IF TOrd(x) # TOrd(y) THEN TOrd(x) < TOrd(y)
  ELSE CASE IsNum(x) -> Num(x) < Num(y)
         [] Tag(x) = "str" -> x[2] < y[2]
         [] Tag(x) \in {"mis", "none"} -> FALSE               \* the rules are silent (see RefUndefined)
         [] IsSeqLike(x) -> LtSeq(x[2], y[2])
         [] Tag(x) = "obj" -> LtSeq(Flds(x), Flds(y))          \* same class: fields in declaration order
         [] Tag(x) = "dict" ->
              LET a == DItems(x)
                  b == DItems(y)
                  n == IF Len(a) < Len(b) THEN Len(a) ELSE Len(b)
                  diff == {k \in 1..n : a[k][1] # b[k][1] \/ ~EqV(a[k][2], b[k][2])}
              IN IF diff = {} THEN Len(a) < Len(b)
                 ELSE LET k == MinOf(diff)
                      IN IF a[k][1] # b[k][1] THEN a[k][1] < b[k][1] ELSE LtV(a[k][2], b[k][2])

\* the hash as coded: structural, pg.List/pg.Dict/objects tagged with their class, pg.Dict items in
\* insertion order without MISSING values; plain list/dict are unhashable (HashDef FALSE)
RECURSIVE HK(_)
HK(v) == CASE IsNum(v) -> <<"n", Num(v)>>
           [] Tag(v) = "str" -> <<"s", v[2]>>
           [] Tag(v) \in {"mis", "none"} -> v
           [] IsSeqLike(v) -> <<Tag(v), [k \in 1..Len(v[2]) |-> HK(v[2][k])]>>
           [] Tag(v) = "dict" -> LET it == SelectSeq(DItems(v), LAMBDA p : Tag(p[2]) # "mis")
                                 IN <<"dict", [k \in 1..Len(it) |-> <<it[k][1], HK(it[k][2])>>]>>
           [] Tag(v) = "obj" -> <<"obj", <<Cls(v), [k \in 1..Len(Flds(v)) |-> HK(Flds(v)[k])]>>>>

-----------------------------------------------------------------------------
(* The universe *)
SeqsUpTo2(E) == {<<>>} \cup {<<e>> : e \in E} \cup {<<e, f>> : e \in E, f \in E}
KA == 2
KB == 4
DictsOver(E) == {<<>>} \cup {<<<<k, v>>>> : k \in {KA, KB}, v \in E}
                \cup {<<<<p[1], v>>, <<p[2], w>>>> : p \in {<<KA, KB>>, <<KB, KA>>}, v \in E, w \in E}

Thorough == Tier = "thorough"
I1 == Iv(1)
I2 == Iv(2)
Atoms == {MISv, NONEv, Bv(0), Bv(1), Iv(0), I1, I2, Fv(2), Fv(3), Sv(1), Sv(2), Sv(3), Sv(4)}
         \cup (IF Thorough THEN {Iv(-1), Fv(-1), Fv(0), Fv(4)} ELSE {})
ListElems == IF Thorough THEN {NONEv, Bv(1), I1, I2, Fv(3), Sv(2)} ELSE {NONEv, I1, I2}
DictVals == IF Thorough THEN {NONEv, I1, I2, Sv(2)} ELSE {I1, I2}
TupElems == IF Thorough THEN {Bv(1), I1, I2, Fv(3)} ELSE {I1, I2}
ObjVals == IF Thorough THEN {NONEv, I1, I2, Sv(2)} ELSE {NONEv, I1, I2}
ObjVals2 == {I1, I2}

Lists1 == {Lv(s) : s \in SeqsUpTo2(ListElems)}
Dicts1 == {Dv(s) : s \in DictsOver(DictVals)}
Tups1 == {Tv(s) : s \in SeqsUpTo2(TupElems)}
Objs1 == {Ov(1, <<x>>) : x \in ObjVals} \cup {Ov(2, <<x>>) : x \in ObjVals}
         \cup {Ov(3, <<x, y>>) : x \in ObjVals2, y \in ObjVals2} \cup {Ov(4, <<x>>) : x \in ObjVals2}

D12 == Dv(<<<<KA, I1>>, <<KB, I2>>>>)      \* {'a': 1, 'b': 2}
D21 == Dv(<<<<KB, I2>>, <<KA, I1>>>>)      \* {'b': 2, 'a': 1}
D13 == Dv(<<<<KA, I1>>, <<KB, Iv(3)>>>>)
D5 == Dv(<<<<KA, Iv(5)>>>>)                \* {'a': 5}: lies between D12 and D21 in insertion order
\* depth-1 containers that are nested once more
Inner == {Lv(<<>>), Lv(<<I1>>), Lv(<<I2>>), Lv(<<I1, I2>>), Dv(<<>>), D12, D21, D5, Dv(<<<<KA, I1>>>>),
          Ov(1, <<I1>>), Ov(1, <<I2>>), Ov(2, <<I1>>), Ov(4, <<I1>>), Tv(<<I1>>)}
         \cup (IF Thorough THEN {Lv(<<NONEv>>), Dv(<<<<KB, I2>>>>), D13, Dv(<<<<KB, Iv(3)>>, <<KA, I1>>>>),
                                 Ov(3, <<I1, I2>>), Ov(1, <<NONEv>>), Tv(<<I1, I2>>), Tv(<<>>)} ELSE {})
InnerSmall == {Lv(<<I1>>), D12, D21, Ov(1, <<I1>>)}
\* values that are symbolically equal to a copy of themselves but NOT equal under Python's == (an object of class D,
\* and containers holding one): a first-difference scan has to pass over them with pg.eq, in every container kind
Opaque == {Ov(4, <<I1>>), Lv(<<Ov(4, <<I1>>)>>), Dv(<<<<KA, Ov(4, <<I1>>)>>>>)}
ScanTails == IF Thorough THEN {NONEv, I1, I2} ELSE {I1, I2}
ScanLists == {Lv(<<h, e>>) : h \in Opaque, e \in ScanTails}
             \cup (IF Thorough THEN {Lv(<<I1, h, e>>) : h \in Opaque, e \in ScanTails} ELSE {})
ScanDicts == {Dv(<<<<KA, h>>, <<KB, e>>>>) : h \in Opaque, e \in ScanTails}
ScanObjs == {Ov(3, <<h, e>>) : h \in Opaque, e \in ScanTails} \cup {Ov(1, <<Lv(<<h, e>>)>>) : h \in Opaque, e \in ScanTails}
            \cup (IF Thorough THEN {Ov(1, <<Dv(<<<<KA, h>>, <<KB, e>>>>)>>) : h \in Opaque, e \in ScanTails} ELSE {})
Lists2 == {Lv(<<x>>) : x \in Inner} \cup {Lv(<<x, e>>) : x \in InnerSmall, e \in {I1, I2}}
          \cup (IF Thorough THEN {Lv(<<x, y>>) : x \in InnerSmall, y \in InnerSmall} ELSE {})
          \cup ScanLists
Dicts2 == {Dv(<<<<KA, x>>>>) : x \in Inner}
          \cup (IF Thorough THEN {Dv(<<<<p[1], x>>, <<p[2], I1>>>>) : p \in {<<KA, KB>>, <<KB, KA>>}, x \in InnerSmall}
                ELSE {})
          \cup ScanDicts
Objs2 == {Ov(1, <<x>>) : x \in Inner} \cup {Ov(3, <<x, y>>) : x \in InnerSmall, y \in {I1, Lv(<<I1>>)}}
         \cup (IF Thorough THEN {Ov(2, <<x>>) : x \in Inner} ELSE {})
         \cup ScanObjs
MisInside == IF Thorough THEN {Lv(<<MISv>>), Lv(<<MISv, I1>>), Dv(<<<<KA, MISv>>>>), Lv(<<Lv(<<MISv>>)>>)} ELSE {}

Ent(v, pg) == [v |-> v, pg |-> pg]
\* pg = 1: every list/dict inside is a pg.List / pg.Dict; pg = 0: plain Python containers.  Objects are always
\* symbolic (their fields are converted by pg.Object), tuples are always plain, MISSING only sits in plain containers.
U == SetToSeq({Ent(v, 0) : v \in Atoms})
     \o SetToSeq({Ent(v, pg) : v \in Lists1, pg \in {0, 1}})
     \o SetToSeq({Ent(v, pg) : v \in Dicts1, pg \in {0, 1}})
     \o SetToSeq({Ent(v, 0) : v \in Tups1})
     \o SetToSeq({Ent(v, 1) : v \in Objs1})
     \o SetToSeq({Ent(v, pg) : v \in Lists2, pg \in {0, 1}})
     \o SetToSeq({Ent(v, pg) : v \in Dicts2, pg \in {0, 1}})
     \o SetToSeq({Ent(v, 1) : v \in Objs2})
     \o SetToSeq({Ent(v, 0) : v \in MisInside})
N == Len(U)
Ix == 1..N
V(a) == U[a].v

IsSymObj(a) == Tag(V(a)) = "obj" /\ Cls(V(a)) \in {1, 2, 3}      \* classes that opt into symbolic comparison
HashDef(a) == IsAtom(V(a)) \/ Tag(V(a)) \in {"tup", "obj"} \/ U[a].pg = 1

-----------------------------------------------------------------------------
(* Zones in which the documented design is silent or inconsistent *)

\* the rules give no answer for None < None and MISSING < MISSING (rule 1 needs `<`, rule 3 containers)
SelfAtom(a, b) == Tag(V(a)) \in {"mis", "none"} /\ Tag(V(b)) = Tag(V(a))

\* two values hold, at the same position (same index / same key, at any depth), dicts with the same key set in
\* different insertion order
RECURSIVE Conflict(_, _)
Conflict(x, y) ==
  IF Tag(x) = "dict" /\ Tag(y) = "dict"
  THEN \/ DKeySet(x) = DKeySet(y) /\ DKeys(x) # DKeys(y)
       \/ \E key \in DKeySet(x) \cap DKeySet(y) : Conflict(DVal(x, key), DVal(y, key))
  ELSE IF Tag(x) = "dict" \/ Tag(y) = "dict" THEN FALSE
  ELSE IF IsSeqLike(x) /\ IsSeqLike(y)
  THEN \E k \in 1..(IF Len(x[2]) < Len(y[2]) THEN Len(x[2]) ELSE Len(y[2])) : Conflict(x[2][k], y[2][k])
  ELSE IF Tag(x) = "obj" /\ Tag(y) = "obj"
  THEN \E k \in 1..(IF Len(Flds(x)) < Len(Flds(y)) THEN Len(Flds(x)) ELSE Len(Flds(y))) :
         Conflict(Flds(x)[k], Flds(y)[k])
  ELSE FALSE

\* s: the sequence of universe indices taking part in a law instance (two distinct positions may hold the
\* same index: comparing a value with itself)
ZoneOf(s) ==
  LET PP == {p \in (1..Len(s)) \X (1..Len(s)) : p[1] < p[2]} IN
  IF \E p \in PP : Conflict(V(s[p[1]]), V(s[p[2]])) THEN "dict-key-order"
  ELSE IF \E p \in PP : SelfAtom(s[p[1]], s[p[2]]) THEN "self-atom"
  ELSE "-"

\* cells of eq whose meaning is not fixed by "structural equality": equal numbers of different Python
\* types (1, True, 1.0) and list-versus-tuple, at any depth
RECURSIVE EqUndetermined(_, _)
EqUndetermined(x, y) ==
  IF IsNum(x) /\ IsNum(y) THEN Tag(x) # Tag(y) /\ Num(x) = Num(y)
  ELSE IF IsSeqLike(x) /\ IsSeqLike(y)
  THEN \/ Tag(x) # Tag(y)
       \/ \E k \in 1..(IF Len(x[2]) < Len(y[2]) THEN Len(x[2]) ELSE Len(y[2])) : EqUndetermined(x[2][k], y[2][k])
  ELSE IF Tag(x) = "dict" /\ Tag(y) = "dict"
  THEN \E key \in DKeySet(x) \cap DKeySet(y) : EqUndetermined(DVal(x, key), DVal(y, key))
  ELSE IF Tag(x) = "obj" /\ Tag(y) = "obj"
  THEN \E k \in 1..(IF Len(Flds(x)) < Len(Flds(y)) THEN Len(Flds(x)) ELSE Len(Flds(y))) :
         EqUndetermined(Flds(x)[k], Flds(y)[k])
  ELSE FALSE

-----------------------------------------------------------------------------
(* Reference tables (same shape as the observed ones) *)
Bit(b) == IF b THEN 1 ELSE 0
\* (TLC keeps [x \in S |-> e] as an unevaluated closure; `\o <<>>` forces an explicit tuple so that each
\* table is computed once.)
EqRef == [a \in Ix |-> ([b \in Ix |-> Bit(EqV(V(a), V(b)))] \o <<>>)] \o <<>>
LtRef == [a \in Ix |-> ([b \in Ix |-> Bit(LtV(V(a), V(b)))] \o <<>>)] \o <<>>
NeRef == [a \in Ix |-> ([b \in Ix |-> 1 - EqRef[a][b]] \o <<>>)] \o <<>>
GtRef == [a \in Ix |-> ([b \in Ix |-> LtRef[b][a]] \o <<>>)] \o <<>>
HashOkRef == [a \in Ix |-> Bit(HashDef(a))] \o <<>>
HashRef == [a \in Ix |-> HK(V(a))] \o <<>>
NS == IF N < 7 THEN N ELSE 7
SortInputsRef == <<[in |-> [k \in 1..NS |-> N + 1 - k], raised |-> 0, out |-> <<>>],
                   [in |-> [k \in 1..NS |-> ((k * 37) % N) + 1], raised |-> 0, out |-> <<>>]>>
RefT == [eq |-> EqRef, ne |-> NeRef, lt |-> LtRef, gt |-> GtRef, opeq |-> EqRef, opne |-> NeRef,
         hashok |-> HashOkRef, hash |-> HashRef, hashrok |-> HashOkRef, hashr |-> HashRef, ophashok |-> HashOkRef, ophash |-> HashRef,
         sorts |-> SortInputsRef]

\* the tables observed on the real code (written by pgverif/order.py): same shape, hash / ophash are indices of
\* classes of equal hash values (hash values themselves do not fit TLC's 32-bit ints)
Obs == IF Mode = "observed" THEN JsonDeserialize(IOEnv.OBS_FILE) ELSE <<>>

\* the tables the laws are evaluated on.  (A definition, not a cfg substitution: TLC re-evaluates a substituted
\* constant on every use, measured 40x slower.)
T == IF Mode = "observed" THEN Obs ELSE RefT

-----------------------------------------------------------------------------
(* The laws, as predicates of a pair (a, b); third elements are quantified inside *)
IsBool(c) == c \in {0, 1}

Refl(a) == T.eq[a][a] = 1
Sym(a, b) == T.eq[a][b] = T.eq[b][a]
TransEqAt(a, b, c) == (T.eq[a][b] = 1 /\ T.eq[b][c] = 1) => T.eq[a][c] = 1
NeIsNotEq(a, b) == (IsBool(T.eq[a][b]) /\ IsBool(T.ne[a][b])) => T.ne[a][b] = 1 - T.eq[a][b]
EqImpliesSameHash(a, b) ==
  \* hash: of the left copy of a value, hashr: of the right copy (cell [a][b] compares left a with right b)
  (T.eq[a][b] = 1 /\ HashDef(a) /\ HashDef(b) /\ T.hashok[a] = 1 /\ T.hashrok[b] = 1) => T.hash[a] = T.hashr[b]
OperatorsAgree(a, b) ==
  /\ (IsSymObj(a) \/ IsSymObj(b)) => (T.opeq[a][b] = T.eq[a][b] /\ T.opne[a][b] = T.ne[a][b])
  /\ (IsSymObj(a) /\ T.hashok[a] = 1) => (T.ophashok[a] = 1 /\ T.ophash[a] = T.hash[a])
Trichotomy(a, b) ==
  Bit(T.lt[a][b] = 1) + Bit(T.eq[a][b] = 1) + Bit(T.lt[b][a] = 1) = 1
GtIsSwappedLt(a, b) == T.gt[a][b] = T.lt[b][a]
TransLtAt(a, b, c) == (T.lt[a][b] = 1 /\ T.lt[b][c] = 1) => T.lt[a][c] = 1
NoRaise(a, b) == /\ IsBool(T.eq[a][b]) /\ IsBool(T.ne[a][b]) /\ IsBool(T.lt[a][b]) /\ IsBool(T.gt[a][b])
                 /\ HashDef(a) => (T.hashok[a] = 1 /\ T.hashrok[a] = 1)
\* eq means structural equality wherever that notion is unambiguous (never applied to lt: any strict
\* total order consistent with eq is acceptable, so no cell of T.lt is compared with LtRef)
EqStructural(a, b) == (~EqUndetermined(V(a), V(b)) /\ IsBool(T.eq[a][b])) => T.eq[a][b] = EqRef[a][b]

PairLaws == {"Refl", "Sym", "NeIsNotEq", "EqImpliesSameHash", "OperatorsAgree", "Trichotomy",
             "GtIsSwappedLt", "NoRaise", "EqStructural"}
TripleLaws == {"TransEq", "TransLt"}
HoldsPair(law, a, b) ==
  CASE law = "Refl" -> Refl(a) [] law = "Sym" -> Sym(a, b) [] law = "NeIsNotEq" -> NeIsNotEq(a, b)
    [] law = "EqImpliesSameHash" -> EqImpliesSameHash(a, b) [] law = "OperatorsAgree" -> OperatorsAgree(a, b)
    [] law = "Trichotomy" -> Trichotomy(a, b) [] law = "GtIsSwappedLt" -> GtIsSwappedLt(a, b)
    [] law = "NoRaise" -> NoRaise(a, b) [] law = "EqStructural" -> EqStructural(a, b)
HoldsTriple(law, a, b, c) == IF law = "TransEq" THEN TransEqAt(a, b, c) ELSE TransLtAt(a, b, c)

-----------------------------------------------------------------------------
(* Abstract insertion sort driven by T.lt *)
NSorts == Len(T.sorts)
\* position (1-based) at which x is inserted into the sorted sequence s: before the first element it is less than
InsertPos(x, s) == LET lts == {k \in 1..Len(s) : T.lt[x][s[k]] = 1} IN IF lts = {} THEN Len(s) + 1 ELSE MinOf(lts)
Raises(x, s) == \E k \in 1..Len(s) : ~IsBool(T.lt[x][s[k]])
InsAt(s, p, x) == SubSeq(s, 1, p - 1) \o <<x>> \o SubSeq(s, p, Len(s))
SortZone(s) == ZoneOf(s)

Init == i = 0 /\ j = 0 /\ sid = 0 /\ inp = <<>> /\ out = <<>> /\ bad = FALSE
PickLeft == i = 0 /\ sid = 0 /\ i' \in Ix /\ UNCHANGED <<j, sid, inp, out, bad>>
PickRight == i > 0 /\ j = 0 /\ j' \in Ix /\ UNCHANGED <<i, sid, inp, out, bad>>
PickSample == i = 0 /\ sid = 0 /\ sid' \in 1..NSorts /\ inp' = T.sorts[sid'].in /\ out' = <<>> /\ bad' = FALSE
              /\ UNCHANGED <<i, j>>
Insert == /\ sid > 0 /\ inp # <<>> /\ ~bad
          /\ LET x == Head(inp) IN
               /\ bad' = Raises(x, out)
               /\ out' = IF bad' THEN out ELSE InsAt(out, InsertPos(x, out), x)
               /\ inp' = Tail(inp)
          /\ UNCHANGED <<i, j, sid>>
Next == PickLeft \/ PickRight \/ PickSample \/ Insert
Spec == Init /\ [][Next]_vars

PairChosen == i > 0 /\ j > 0
SortDone == sid > 0 /\ (inp = <<>> \/ bad)

\* what it means for the finished sort to be right: nothing raised, neither in the model nor in the real
\* sorted(); the model's result is totally sorted; the real result is the same sequence up to eq
SortGood == /\ ~bad
            /\ T.sorts[sid].raised = 0
            /\ \A a \in 1..Len(out), b \in 1..Len(out) : a < b => T.lt[out[b]][out[a]] # 1
            /\ T.sorts[sid].out # <<>> =>
                 /\ Len(T.sorts[sid].out) = Len(out)
                 /\ \A k \in 1..Len(out) : T.eq[out[k]][T.sorts[sid].out[k]] = 1

(* Invariants: the property *)
LawsHold == PairChosen => /\ \A law \in PairLaws : HoldsPair(law, i, j)
                          /\ \A law \in TripleLaws : \A c \in Ix : HoldsTriple(law, i, j, c)
SortTotal == SortDone => SortGood

(* The same, outside the zones where the documented design is known to be silent/inconsistent *)
LawsHoldOutsideZones ==
  PairChosen => /\ \A law \in PairLaws : HoldsPair(law, i, j) \/ ZoneOf(<<i, j>>) # "-"
                /\ \A law \in TripleLaws : \A c \in Ix : HoldsTriple(law, i, j, c) \/ ZoneOf(<<i, j, c>>) # "-"
SortTotalOutsideZones == SortDone => (SortGood \/ SortZone(T.sorts[sid].in) # "-")

(* Diagnosis: always TRUE; prints one witness per (law, pair, zone) and per failed sort *)
Diagnose ==
  /\ PairChosen =>
       /\ \A law \in PairLaws : HoldsPair(law, i, j) \/ PrintT(<<"VIOL", law, i, j, 0, ZoneOf(<<i, j>>)>>)
       /\ \A law \in TripleLaws :
            LET badc == {c \in Ix : ~HoldsTriple(law, i, j, c)}
            IN \A z \in {ZoneOf(<<i, j, c>>) : c \in badc} :
                 PrintT(<<"VIOL", law, i, j, CHOOSE c \in badc : ZoneOf(<<i, j, c>>) = z, z>>)
  /\ SortDone => (SortGood \/ PrintT(<<"VIOL", "SortTotal", sid, 0, 0, SortZone(T.sorts[sid].in)>>))

(* Vacuity / design facts, evaluated once *)
UniverseOK ==
  /\ N = Cardinality({U[a] : a \in Ix})                                    \* no duplicates
  /\ \E a \in Ix, b \in Ix : a # b /\ ZoneOf(<<a, b>>) = "dict-key-order"
  /\ \E a \in Ix : SelfAtom(a, a)
  /\ \E a \in Ix, b \in Ix : a # b /\ EqRef[a][b] = 1                      \* non-trivial equivalence classes
  /\ \E a \in Ix : IsSymObj(a)
  /\ \E a \in Ix, b \in Ix : /\ V(a) \in ScanLists /\ V(b) \in ScanLists /\ LtRef[a][b] = 1      \* scan pairs exist
                              /\ EqV(V(a)[2][1], V(b)[2][1])
=============================================================================
