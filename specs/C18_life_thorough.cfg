SPECIFICATION Spec
CONSTANTS
  MaxPos = 2
  KwNames = {1, 2, 11, 21}
  MaxArgs = 3
  MaxKw = 1
  MaxSteps = 3
  AsCoded = FALSE
  SimK = 0
CONSTRAINT StepBound
CONSTRAINT CallsLast
VIEW view
INVARIANT TypeOK
INVARIANT EffectiveWellDefined
INVARIANT ResultComplete
PROPERTY CallIsPure
PROPERTY FullBindAgrees
PROPERTY LateBindAgrees
PROPERTY ConstructAgrees
