SPECIFICATION Spec
CONSTANTS
  NKeys = 1
  MaxDepth = 3
  Regs = {1, 2, 3}
  Mirror = FALSE
  MaxLevel = 100
  SimK = 0
  Ops = {"add", "remove", "inplace", "pure", "copy", "rebase", "clear", "subtree"}
VIEW view
INVARIANT TrieWF
INVARIANT Refines
INVARIANT Canonical
INVARIANT ObsAgree
