INIT Init
NEXT NoNext
CONSTANTS
  Tier = "thorough"
  Variant = "ref"
  MaxLevel = 0
  SimK = 0
