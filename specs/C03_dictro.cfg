SPECIFICATION Spec
CONSTANTS
  U = "quick"
  Kind = "dict"
  InitPartial = FALSE
  Mirror = FALSE
  MaxLevel = 2
  Small = TRUE
  Avoid = FALSE
  SimK = 0
  AccW = FALSE
  Acts = {"dset", "rebind", "ddel", "batch", "ctor"}
CONSTRAINT LevelBound
VIEW view
INVARIANT Conforms
INVARIANT AltsConform
PROPERTY RejectedWriteNoStore
