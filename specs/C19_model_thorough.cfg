SPECIFICATION Spec
CONSTANTS
  MaxDepth = 2
  MaxScopes = 3
INVARIANT NoForbiddenRuns
INVARIANT ValidateBeforeRun
INVARIANT RanOnlyWhenDone
INVARIANT Narrowing
INVARIANT ArgumentRespected
INVARIANT RejectJustified
INVARIANT OutcomeInVerdict
INVARIANT AllowedEventuallyRuns
