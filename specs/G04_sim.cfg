SPECIFICATION Spec
CONSTANTS
  Tier = "quick"
  Variant = "ref"
  MaxLevel = 100
  SimK = 2
PROPERTY RebindExact
