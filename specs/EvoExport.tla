------------------------------ MODULE EvoExport ------------------------------
(* Exports the C14 spaces and their valid-DNA sets (computed by TLC) as JSON for the harness, after *)
(* checking that the membership predicate used on logged outputs agrees with the declarative set.  *)
EXTENDS EvoGeno, TLC, Json, IOUtils, SequencesExt

Cat == SelectSeq(SpecNames, LAMBDA n : ~HasFloat(n))

\* one-step corruptions of a choices-level DNA: one choice value moved by +-1 (incl. -1 and n)
RECURSIVE Corrupt(_, _)
Corrupt(sp, d) ==
  IF sp.t = "space"
  THEN UNION { { [d EXCEPT ![i] = x] : x \in Corrupt(sp.elems[i], d[i]) } : i \in 1..Len(d) }
  ELSE IF sp.t = "float" THEN {sp.lo - 1, sp.hi + 1}
  ELSE UNION { { [d EXCEPT ![i] = <<d[i][1] + dv, d[i][2]>>] : dv \in {-1, 1} } : i \in 1..Len(d) }

ASSUME \A i \in 1..Len(Cat) : LET sp == SpecOf(Cat[i]) IN
         /\ Valid(sp) # {}
         /\ \A d \in Valid(sp) : IsValid(sp, d)
         /\ \A d \in Valid(sp) : \A c \in Corrupt(sp, d) : IsValid(sp, c) <=> (c \in Valid(sp))

ASSUME JsonSerialize(IOEnv.OUT_FILE,
         [names |-> SpecNames,
          specs |-> [i \in 1..Len(SpecNames) |-> SpecOf(SpecNames[i])],
          valid |-> [i \in 1..Len(SpecNames) |->
                       IF HasFloat(SpecNames[i]) THEN <<>> ELSE SetToSeq(Valid(SpecOf(SpecNames[i])))]])

VARIABLE x
Init == x = 0
Next == UNCHANGED x
=============================================================================
