SPECIFICATION Spec
CONSTANTS
  Workers = {1, 2}
  Configs <- TwoSameDone
  MirrorGoc = FALSE
  MirrorSetup = FALSE
  MirrorDone = FALSE
  LockCreate = TRUE
  LockComplete = TRUE
  LockAlg = TRUE
  NULL = NULL
INVARIANTS OnePendingPerGroup
