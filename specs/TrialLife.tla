------------------------------ MODULE TrialLife ------------------------------
(***************************************************************************)
(* G03 - life cycle of trials and feedback objects in pg.sample, as seen   *)
(* by ONE worker with the in-memory backend (pyglove/core/tuning:          *)
(* sample.py, local_backend.py, protocols.py) and a sweeping algorithm.    *)
(*                                                                         *)
(* The worker owns a generator `it = pg.sample(space, algo, num_examples,  *)
(* policy, name=...)` and the feedback objects the generator yielded.      *)
(* One action = one public call:                                           *)
(*   Next            next(it): the pending trial again, or a new trial, or *)
(*                   StopIteration (loop ended / budget / space exhausted);*)
(*                   proposals that carry a controller-side reward are     *)
(*                   measured and completed inside the call                *)
(*   Reopen          a new pg.sample(...) with the same name and algorithm *)
(*   AddMeas         f.add_measurement(reward, metrics, step, ...)         *)
(*                   (optionally inside `with f.ignore_race_condition()`)  *)
(*   Done / Call     f.done(metadata, related_links) / f(reward, ...)      *)
(*   Skip            f.skip()                                              *)
(*   SkipOnExc       `with f.skip_on_exceptions(spec): raise ValueError`   *)
(*   SetMeta/GetMeta f.set_metadata / f.get_metadata (per trial / study)   *)
(*   AddLink         f.add_link(name, url)                                 *)
(*   StopEarly       f.should_stop_early()                                 *)
(*   EndLoop         f.end_loop()                                          *)
(* The read side pg.poll_result(name) is the state itself: the conformance *)
(* driver projects it after every call (there is no hidden state).         *)
(*                                                                         *)
(* All payloads are ints: a reward r stands for the float r / 2, NONE = 99 *)
(* (argument not given), ABSENT = 98 (no such key).  Metadata key 9 is     *)
(* 'client_evaluation_skipped'.                                            *)
(*                                                                         *)
(* Rule switches.  The first value is the intended rule, the others are    *)
(* as-coded or plausible-wrong rules kept as negative controls that TLC    *)
(* must refute:                                                            *)
(*   FinalRule  "last"     final measurement = the last one added          *)
(*              "maxstep"  = the one with the largest step (what the       *)
(*                         docstring of add_measurement says; equal to     *)
(*                         "last" when steps never decrease)               *)
(*   BestRule   "strict"   the best trial is replaced only by a strictly   *)
(*                         greater reward of a feasible trial              *)
(*              "nonstrict" replaced on >=  ;  "skipcounts" a skipped      *)
(*                         trial competes with its placeholder reward 0    *)
(*   LinksRule  "recorded" done(related_links=...) stores the links        *)
(*              "dropped"  as coded: the argument is discarded             *)
(*   RedoneRule "noop"     done() on a COMPLETED trial changes nothing     *)
(*              "refeed"   plausible-wrong: it feeds the algorithm again   *)
(***************************************************************************)
EXTENDS Integers, Sequences, FiniteSets, TLC, Randomization, Json, IOUtils

CONSTANTS Budget,         \* num_examples; 0 = None (unbounded)
          SpaceSize,      \* number of points of the search space (Sweeping proposes 1, 2, ..; then StopIteration)
          MaxMeas,        \* bound on measurements per trial
          Rewards,        \* palette for the `reward` argument
          Accs,           \* palette for metrics['acc'] (NONE is always possible)
          Steps,          \* palette for `step`
          Extras,         \* 0: elapse_secs/checkpoint_path not given; 1: elapse_secs=7.0; 2: checkpoint_path; 3: both
          MonotoneSteps,  \* TRUE: the worker never reports a smaller step than before
          Objective,      \* "reward": metrics_to_optimize = ['reward'];  "acc": ['acc']
          Policy,         \* "none" | "neg": early stopping policy "the last reported reward is negative"
          CtrlAt,         \* proposals (by ordinal) that carry a controller-side reward in dna.metadata
          MetaKeys, MetaVals, LinkNames, Urls,
          FinalRule, BestRule, LinksRule, RedoneRule,
          SimK            \* 0: quantify over whole argument sets; k > 0: over k random members (simulation)

VARIABLES phase,          \* "new" (no study yet) | "open" | "closed" (the generator is exhausted)
          trials,         \* sequence of trial records (poll_result(name).trials)
          smeta,          \* per-study metadata
          active,         \* result.is_active
          best,           \* id of result.best_trial, 0 = None
          nprop,          \* algorithm.num_proposals
          fed,            \* what the algorithm was fed: sequence of <<dna, reward>>
          cnt,            \* the counters of the result summary: [pend, comp, inf]
          handles,        \* ids of the trials the worker holds a feedback object of
          out,            \* result of the last call
          act             \* the last call

data == <<trials, smeta, active, best, nprop, fed, cnt>>
vars == <<phase, trials, smeta, active, best, nprop, fed, cnt, handles, out, act>>
view == <<phase, trials, smeta, active, best, nprop, fed, cnt, handles>>

NONE == 99
ABSENT == 98
\* palettes (a cfg file cannot spell a negative number): use  Rewards <- PalNZP  etc.
PalNZP == {-1, 0, 2}
PalNP == {-1, 2}
PalNN == {-3, -1}
PalZP == {0, 2}
CES == 9
AllMetaKeys == MetaKeys \cup (IF CtrlAt = {} THEN {} ELSE {CES})
SkipM == [step |-> 0, rw |-> 0, acc |-> NONE, x |-> 5]      \* the placeholder final measurement of a skipped trial
CtrlReward(d) == (d % 3) - 1                                  \* the reward the controller attaches to proposal d

St == [trials |-> trials, smeta |-> smeta, active |-> active, best |-> best, nprop |-> nprop, fed |-> fed, cnt |-> cnt]

NewTrial(id, d) == [id |-> id, dna |-> d, status |-> "PENDING", meas |-> <<>>, final |-> <<>>, inf |-> FALSE,
                    meta |-> [k \in AllMetaKeys |-> ABSENT], links |-> [n \in LinkNames |-> ABSENT]]
LastOf(q) == q[Len(q)]
PMin(a, b) == IF a <= b THEN a ELSE b

---------------------------------------------------------------------------
(* Mechanisms (pure functions of a state record)                                           *)

\* index of the last measurement among those with the largest step
MaxStepIdx(q) == CHOOSE i \in 1..Len(q) : \A j \in 1..Len(q) : q[j].step < q[i].step \/ (q[j].step = q[i].step /\ j <= i)
FinalOf(q) == IF FinalRule = "last" THEN LastOf(q) ELSE q[MaxStepIdx(q)]

FinalReward(tr) == tr.final[1].rw
Better(s, t) ==                   \* does the just completed trial t replace the incumbent
  IF s.best = 0 THEN TRUE
  ELSE LET b == FinalReward(s.trials[s.best])  r == FinalReward(s.trials[t]) IN
       IF BestRule = "nonstrict" THEN b <= r ELSE b < r

CompleteT(s, t) ==                \* _InMemoryResult._complete_trial
  LET tr == s.trials[t]
      s1 == [s EXCEPT !.cnt.comp = @ + 1, !.cnt.pend = @ - 1]
      s2 == IF tr.inf THEN [s1 EXCEPT !.cnt.inf = @ + 1] ELSE s1
  IN IF tr.inf /\ BestRule # "skipcounts" THEN s2
     ELSE IF Better(s2, t) THEN [s2 EXCEPT !.best = t] ELSE s2

\* add_measurement: argument validation of protocols.Feedback, then the PENDING test of the backend
ValidArgs(ra, ma) == IF Objective = "reward" THEN ra # NONE ELSE (ma # NONE /\ ra = NONE)
StoredReward(ra, ma) == IF Objective = "reward" THEN ra ELSE ma
AddS(s, t, ra, ma, st, x, g) ==
  LET tr == s.trials[t] IN
  IF ~ValidArgs(ra, ma)
    THEN [s |-> s, out |-> IF tr.status = "PENDING" THEN <<"err", "ValueError">> ELSE <<"err", "ValueOrRace">>]
  ELSE IF tr.status # "PENDING"
    THEN [s |-> s, out |-> IF g = 1 THEN <<"ok">> ELSE <<"err", "RaceConditionError">>]
  ELSE [s |-> [s EXCEPT !.trials[t].meas = Append(@, [step |-> st, rw |-> StoredReward(ra, ma), acc |-> ma, x |-> x])],
        out |-> <<"ok">>]

\* done(metadata = {mk: mv}, related_links = {ln: lu})     (mk / ln = NONE: argument not given)
DoneS(s, t, mk, mv, ln, lu) ==
  LET tr == s.trials[t] IN
  IF tr.status # "PENDING"
    THEN [s |-> IF RedoneRule = "refeed" /\ ~tr.inf THEN [s EXCEPT !.fed = Append(@, <<tr.dna, FinalReward(tr)>>)] ELSE s,
          out |-> <<"noop">>]
  ELSE IF tr.meas = <<>> THEN [s |-> s, out |-> <<"err", "ValueError">>]
  ELSE LET fm == FinalOf(tr.meas)
           tr1 == [tr EXCEPT !.status = "COMPLETED", !.final = <<fm>>,
                             !.meta = [k \in AllMetaKeys |-> IF k = mk THEN mv ELSE tr.meta[k]],
                             !.links = [n \in LinkNames |-> IF n = ln /\ LinksRule = "recorded" THEN lu ELSE tr.links[n]]]
           s1 == [s EXCEPT !.trials[t] = tr1, !.fed = Append(@, <<tr.dna, fm.rw>>)]
       IN [s |-> CompleteT(s1, t), out |-> <<"ok">>]

SkipS(s, t) ==
  LET tr == s.trials[t] IN
  IF tr.status # "PENDING" THEN [s |-> s, out |-> <<"noop">>]
  ELSE [s |-> CompleteT([s EXCEPT !.trials[t] = [tr EXCEPT !.status = "COMPLETED", !.inf = TRUE, !.final = <<SkipM>>]], t),
        out |-> <<"ok">>]

\* the loop of pg.sample around backend.next(): controller-evaluated proposals are completed on the spot
RECURSIVE Advance(_)
Advance(s) ==
  IF ~s.active THEN [s |-> s, out |-> <<"stop">>]
  ELSE IF Budget # 0 /\ Len(s.trials) >= Budget THEN [s |-> s, out |-> <<"stop">>]
  ELSE IF s.nprop >= SpaceSize THEN [s |-> s, out |-> <<"stop">>]            \* Sweeping.propose raises StopIteration
  ELSE LET d == s.nprop + 1
           id == Len(s.trials) + 1
           s1 == [s EXCEPT !.trials = Append(@, NewTrial(id, d)), !.nprop = d, !.cnt.pend = @ + 1]
       IN IF d \in CtrlAt
            THEN Advance(DoneS(AddS(s1, id, CtrlReward(d), NONE, 0, 0, 1).s, id, CES, 1, NONE, NONE).s)
            ELSE [s |-> s1, out |-> <<"yield", id, d>>]
NextS(s) ==
  IF ~s.active THEN [s |-> s, out |-> <<"stop">>]
  ELSE IF s.trials # <<>> /\ LastOf(s.trials).status = "PENDING"
    THEN [s |-> s, out |-> <<"yield", Len(s.trials), LastOf(s.trials).dna>>]     \* failover: the same trial again
  ELSE Advance(s)

\* the user's early stopping policy (a pure function of the trial it is shown)
PolicyStop(tr) == Policy = "neg" /\ LastOf(tr.meas).rw < 0

Commit(s) ==
  /\ trials' = s.trials /\ smeta' = s.smeta /\ active' = s.active /\ best' = s.best
  /\ nprop' = s.nprop /\ fed' = s.fed /\ cnt' = s.cnt

---------------------------------------------------------------------------
(* Actions                                                                                   *)
DoNext ==
  /\ act' = <<"Next">>
  /\ IF phase = "closed"
       THEN out' = <<"stop">> /\ UNCHANGED <<data, phase, handles>>
       ELSE LET r == NextS(St) IN
            /\ Commit(r.s) /\ out' = r.out
            /\ phase' = IF r.out[1] = "stop" THEN "closed" ELSE "open"
            /\ handles' = IF r.out[1] = "yield" THEN handles \cup {r.out[2]} ELSE handles

Reopen ==
  /\ act' = <<"Reopen">>
  /\ phase # "new"
  /\ phase' = "open" /\ out' = <<"ok">> /\ UNCHANGED <<data, handles>>

StepOK(t, st) == IF ~MonotoneSteps \/ trials[t].meas = <<>> THEN TRUE ELSE LastOf(trials[t].meas).step <= st
Room(t) == trials[t].status # "PENDING" \/ Len(trials[t].meas) < MaxMeas

AddMeas(t, ra, ma, st, x, g) ==
  /\ act' = <<"AddMeas", t, ra, ma, st, x, g>>
  /\ StepOK(t, st) /\ Room(t)
  /\ LET r == AddS(St, t, ra, ma, st, x, g) IN Commit(r.s) /\ out' = r.out
  /\ UNCHANGED <<phase, handles>>

Done(t, mk, mv, ln, lu) ==
  /\ act' = <<"Done", t, mk, mv, ln, lu>>
  /\ LET r == DoneS(St, t, mk, mv, ln, lu) IN Commit(r.s) /\ out' = r.out
  /\ UNCHANGED <<phase, handles>>

Call(t, ra, ma, st, mk, mv) ==            \* f(reward, metrics, step=, metadata=) = add_measurement; done
  /\ act' = <<"Call", t, ra, ma, st, mk, mv>>
  /\ StepOK(t, st) /\ Room(t)
  /\ LET a == AddS(St, t, ra, ma, st, 0, 0) IN
     IF a.out[1] # "ok" THEN Commit(a.s) /\ out' = a.out
     ELSE LET r == DoneS(a.s, t, mk, mv, NONE, NONE) IN Commit(r.s) /\ out' = r.out
  /\ UNCHANGED <<phase, handles>>

Skip(t) ==
  /\ act' = <<"Skip", t>>
  /\ LET r == SkipS(St, t) IN Commit(r.s) /\ out' = r.out
  /\ UNCHANGED <<phase, handles>>

\* `with f.skip_on_exceptions(spec): raise ValueError('bad value')`
\*   "type": (ValueError,)   "sub": (Exception,)   "regex": ((ValueError, 'bad.*'),)
\*   "regex_miss": ((ValueError, 'good.*'),)   "other": (KeyError,)   "quiet": (ValueError,) and nothing is raised
ExcKinds == {"type", "sub", "regex", "regex_miss", "other", "quiet"}
Caught(kind) == kind \in {"type", "sub", "regex"}
SkipOnExc(t, kind) ==
  /\ act' = <<"SkipOnExc", t, kind>>
  /\ IF Caught(kind) THEN LET r == SkipS(St, t) IN Commit(r.s) /\ out' = r.out
     ELSE IF kind = "quiet" THEN out' = <<"quiet">> /\ UNCHANGED data
     ELSE out' = <<"err", "ValueError">> /\ UNCHANGED data
  /\ UNCHANGED <<phase, handles>>

\* metadata: pt = 1 per trial (written while the trial is PENDING), pt = 0 per study
SetMeta(t, k, v, pt) ==
  /\ act' = <<"SetMeta", t, k, v, pt>>
  /\ pt = 1 => trials[t].status = "PENDING"
  /\ IF pt = 1 THEN trials' = [trials EXCEPT ![t].meta[k] = v] /\ smeta' = smeta
     ELSE smeta' = [smeta EXCEPT ![k] = v] /\ trials' = trials
  /\ out' = <<"ok">>
  /\ UNCHANGED <<phase, handles, active, best, nprop, fed, cnt>>

GetMeta(t, k, pt) ==
  /\ act' = <<"GetMeta", t, k, pt>>
  /\ out' = <<"val", IF pt = 1 THEN trials[t].meta[k] ELSE smeta[k]>>      \* ABSENT reads as None
  /\ UNCHANGED <<data, phase, handles>>

AddLink(t, n, u) ==
  /\ act' = <<"AddLink", t, n, u>>
  /\ trials[t].status = "PENDING"
  /\ trials' = [trials EXCEPT ![t].links[n] = u]
  /\ out' = <<"ok">>
  /\ UNCHANGED <<phase, handles, smeta, active, best, nprop, fed, cnt>>

StopEarly(t) ==
  /\ act' = <<"StopEarly", t>>
  /\ trials[t].status = "PENDING"
  /\ out' = <<"val", IF trials[t].meas # <<>> /\ PolicyStop(trials[t]) THEN 1 ELSE 0>>
  /\ UNCHANGED <<data, phase, handles>>

EndLoop(t) ==
  /\ act' = <<"EndLoop", t>>
  /\ active' = FALSE /\ out' = <<"ok">>
  /\ UNCHANGED <<phase, handles, trials, smeta, best, nprop, fed, cnt>>

---------------------------------------------------------------------------
\* NOTE (see Inferred.tla): RandomSubset over a constant set is folded once per run; mentioning a variable prevents that.
P(S) == IF SimK = 0 \/ S = {} THEN S ELSE RandomSubset(PMin(SimK, Cardinality(S)), IF act = <<>> THEN {} ELSE S)
OptR == Rewards \cup {NONE}
OptA == Accs \cup {NONE}
Guard == {0, 1}

NextT(t) ==
  \/ \E ra \in P(OptR), ma \in P(OptA), st \in P(Steps), x \in P(Extras), g \in P(Guard) : AddMeas(t, ra, ma, st, x, g)
  \* simulation only: two more draws of a well-formed add_measurement, so that trials with several measurements are not rare
  \/ SimK > 0 /\ \E ra \in P(IF Objective = "reward" THEN Rewards ELSE {NONE}), ma \in P(IF Objective = "acc" THEN Accs ELSE OptA),
                    st \in P(Steps), x \in P(Extras) : AddMeas(t, ra, ma, st, x, 0)
  \/ SimK > 0 /\ \E ra \in P(IF Objective = "reward" THEN Rewards ELSE {NONE}), ma \in P(IF Objective = "acc" THEN Accs ELSE OptA),
                    st \in P(Steps), x \in P(Extras) : AddMeas(t, ra, ma, st, x, 0)
  \/ \E mk \in P(MetaKeys \cup {NONE}), ln \in P(LinkNames \cup {NONE}) :
       \E mv \in P(IF mk = NONE THEN {NONE} ELSE MetaVals), lu \in P(IF ln = NONE THEN {NONE} ELSE Urls) : Done(t, mk, mv, ln, lu)
  \/ \E ra \in P(OptR), ma \in P(OptA), st \in P(Steps), mk \in P(MetaKeys \cup {NONE}) :
       \E mv \in P(IF mk = NONE THEN {NONE} ELSE MetaVals) : Call(t, ra, ma, st, mk, mv)
  \/ Skip(t)
  \/ \E kind \in P(ExcKinds) : SkipOnExc(t, kind)
  \/ \E k \in P(MetaKeys), v \in P(MetaVals), pt \in P(Guard) : SetMeta(t, k, v, pt)
  \/ \E k \in P(MetaKeys), pt \in P(Guard) : GetMeta(t, k, pt)
  \/ \E n \in P(LinkNames), u \in P(Urls) : AddLink(t, n, u)
  \/ StopEarly(t)
  \/ EndLoop(t)

Next == \/ DoNext
        \/ Reopen
        \/ \E t \in P(handles) : NextT(t)

Init ==
  /\ phase = "new" /\ trials = <<>> /\ smeta = [k \in MetaKeys |-> ABSENT] /\ active = TRUE /\ best = 0
  /\ nprop = 0 /\ fed = <<>> /\ cnt = [pend |-> 0, comp |-> 0, inf |-> 0] /\ handles = {}
  /\ out = <<"init">> /\ act = <<"Init">>

Spec == Init /\ [][Next]_vars

\* Re-running one recorded history (./check G03 --replay FILE): every call is the one the script names.
Script == JsonDeserialize(IOEnv.SCRIPT_FILE)
ScriptNext == /\ TLCGet("level") < Len(Script)
              /\ Next
              /\ act' = Script[TLCGet("level") + 1]
SpecScript == Init /\ [][ScriptNext]_vars

---------------------------------------------------------------------------
(* Properties: invariants                                                                    *)
N == Len(trials)
Ids == 1..N
Completed == {i \in Ids : trials[i].status = "COMPLETED"}
Pending == {i \in Ids : trials[i].status = "PENDING"}
Feasible == {i \in Completed : ~trials[i].inf}
Infeasible == {i \in Ids : trials[i].inf}

TypeOK ==
  /\ phase \in {"new", "open", "closed"} /\ active \in BOOLEAN /\ best \in 0..N /\ nprop \in 0..SpaceSize
  /\ \A i \in Ids : /\ trials[i].status \in {"PENDING", "COMPLETED"}
                    /\ Len(trials[i].meas) <= MaxMeas /\ Len(trials[i].final) <= 1
                    /\ \A j \in 1..Len(trials[i].meas) : trials[i].meas[j].step \in Steps
  /\ (phase = "new") => (trials = <<>> /\ handles = {})

\* trial ids are dense and increasing, proposals are handed out in sweeping order, one proposal per trial
IdsDense == \A i \in Ids : trials[i].id = i
SweepOrder == nprop = N /\ \A i \in Ids : trials[i].dna = i
\* the budget (num_examples) and the size of the space bound the number of trials
BudgetRespected == (Budget # 0 => N <= Budget) /\ N <= SpaceSize
\* a single worker has at most one PENDING trial, and it is the newest one
OnePending == \A i \in Pending : i = N

\* PENDING <=> no final measurement; a skipped trial is COMPLETED, infeasible, with the placeholder measurement;
\* a trial completed by done() has at least one measurement and its final measurement is the LAST one added
FinalShape == \A i \in Ids : LET tr == trials[i] IN
  /\ (tr.status = "PENDING") <=> (tr.final = <<>>)
  /\ tr.inf => (tr.status = "COMPLETED" /\ tr.final = <<SkipM>>)
  /\ i \in Feasible => (tr.meas # <<>> /\ tr.final = <<LastOf(tr.meas)>>)
\* ... which is also the one at the largest step (the other documented rule) as long as steps never decrease
FinalIsLargestStep == \A i \in Feasible : \A j \in 1..Len(trials[i].meas) : trials[i].meas[j].step <= trials[i].final[1].step

\* best_trial: None iff nothing feasible is completed; otherwise a feasible completed trial with the
\* maximal final reward, and among equals the one that was completed first (smallest id)
BestIsArgmax ==
  IF Feasible = {} THEN best = 0
  ELSE /\ best \in Feasible
       /\ \A j \in Feasible : /\ FinalReward(trials[j]) <= FinalReward(trials[best])
                              /\ FinalReward(trials[j]) = FinalReward(trials[best]) => best <= j

\* the algorithm is fed exactly once per trial completed by done(), in completion order, with the final reward;
\* never for a skipped trial
FeasSeq[i \in 0..N] == IF i = 0 THEN <<>>
                       ELSE FeasSeq[i - 1] \o (IF i \in Feasible THEN << <<trials[i].dna, FinalReward(trials[i])>> >> ELSE <<>>)
FedIsHistory == fed = FeasSeq[N]

CountersMatch == /\ cnt.pend = Cardinality(Pending) /\ cnt.comp = Cardinality(Completed)
                 /\ cnt.inf = Cardinality(Infeasible)

\* the worker holds a feedback object for exactly the trials that were yielded to it; controller-evaluated
\* proposals are never yielded: they are COMPLETED, feasible, with one measurement and the marker metadata
HandlesAreYielded == handles = {i \in Ids : trials[i].dna \notin CtrlAt}
CtrlTrialsShape == \A i \in Ids : trials[i].dna \in CtrlAt =>
  /\ i \in Feasible /\ Len(trials[i].meas) = 1 /\ trials[i].meas[1].rw = CtrlReward(trials[i].dna)
  /\ trials[i].meta[CES] = 1

---------------------------------------------------------------------------
(* Properties: actions                                                                       *)
Core(tr) == <<tr.id, tr.dna, tr.status, tr.meas, tr.final, tr.inf>>
IsPrefix(p, q) == Len(p) <= Len(q) /\ SubSeq(q, 1, Len(p)) = p

\* the list of trials only grows, and only next() makes it grow
TrialsOnlyGrow == [][/\ Len(trials') >= N
                     /\ \A i \in Ids : trials'[i].id = trials[i].id /\ trials'[i].dna = trials[i].dna
                     /\ (Len(trials') # N => act'[1] = "Next")]_vars
\* measurements are append-only, one at a time per call of the worker
MeasAppendOnly == [][\A i \in Ids : /\ IsPrefix(trials[i].meas, trials'[i].meas)
                                    /\ Len(trials'[i].meas) <= Len(trials[i].meas) + 1]_vars
\* a COMPLETED trial never changes (status, measurements, final measurement, infeasible flag)
CompletedFrozen == [][\A i \in Completed : Core(trials'[i]) = Core(trials[i])]_vars
\* end_loop is final: the study stays inactive, next() stops, no trial is ever created again
EndIsFinal == [][~active => (/\ ~active' /\ Len(trials') = N
                             /\ (act'[1] = "Next" => out' = <<"stop">>))]_vars
\* an exhausted generator stays exhausted until pg.sample is called again
ClosedStaysClosed == [][(phase = "closed" /\ act'[1] # "Reopen") => phase' = "closed"]_vars
\* next() while the newest trial is PENDING hands out the same trial again (same id, same DNA, nothing proposed)
PendingIsReoffered == [][(act'[1] = "Next" /\ phase # "closed" /\ active /\ Pending # {})
                          => (out' = <<"yield", N, trials[N].dna>> /\ UNCHANGED data)]_vars
\* a call that fails, is refused or finds nothing to do leaves every observable unchanged; a next() that stops may
\* only have completed controller-evaluated proposals on its way
FailedCallChangesNothing ==
  [][/\ out'[1] \in {"err", "noop", "quiet"} => UNCHANGED <<data, handles>>
     /\ out'[1] = "stop" => /\ UNCHANGED <<handles, smeta, active>>
                            /\ SubSeq(trials', 1, N) = trials
                            /\ \A i \in (N + 1)..Len(trials') : trials'[i].dna \in CtrlAt]_vars
\* reads are pure
ReadsArePure == [][act'[1] \in {"GetMeta", "StopEarly"} => UNCHANGED <<data, phase, handles>>]_vars
\* metadata: a write is visible to the next read of the same key in the same store and touches nothing else
MetaWriteIsolated ==
  [][act'[1] = "SetMeta" =>
       LET t == act'[2]  k == act'[3]  v == act'[4]  pt == act'[5] IN
       /\ (pt = 1 => trials'[t].meta[k] = v /\ smeta' = smeta)
       /\ (pt = 0 => smeta'[k] = v /\ trials' = trials)
       /\ \A i \in Ids : \A kk \in AllMetaKeys : (pt = 0 \/ i # t \/ kk # k) => trials'[i].meta[kk] = trials[i].meta[kk]
       /\ \A kk \in MetaKeys : (pt = 1 \/ kk # k) => smeta'[kk] = smeta[kk]
       /\ \A i \in Ids : Core(trials'[i]) = Core(trials[i]) /\ trials'[i].links = trials[i].links]_vars
MetaReadIsCurrent ==
  [][act'[1] = "GetMeta" => out' = <<"val", IF act'[4] = 1 THEN trials[act'[2]].meta[act'[3]] ELSE smeta[act'[3]]>>]_vars
\* done(metadata=, related_links=) on a PENDING trial records both
DoneRecordsExtras ==
  [][(act'[1] = "Done" /\ out' = <<"ok">>) =>
       LET t == act'[2] IN
       /\ act'[3] # NONE => trials'[t].meta[act'[3]] = act'[4]
       /\ act'[5] # NONE => trials'[t].links[act'[5]] = act'[6]]_vars
\* the best trial changes only to a trial completed by this very call and only on a strictly greater reward
BestOnlyImproves ==
  [][best' # best => /\ best' \notin Completed /\ trials'[best'].status = "COMPLETED" /\ ~trials'[best'].inf
                     /\ (best # 0 => FinalReward(trials'[best']) > FinalReward(trials[best]))]_vars
\* the algorithm's feedback log is append-only; skip never feeds, never moves the best trial
FedAppendOnly == [][IsPrefix(fed, fed')]_vars
SkipNeverFeeds == [][act'[1] \in {"Skip", "SkipOnExc"} => (fed' = fed /\ best' = best)]_vars
\* should_stop_early is False before the first measurement, otherwise the policy's verdict on the current trial
StopEarlyIsPolicy ==
  [][act'[1] = "StopEarly" =>
       out' = <<"val", IF trials[act'[2]].meas = <<>> THEN 0 ELSE IF PolicyStop(trials[act'[2]]) THEN 1 ELSE 0>>]_vars
=============================================================================
