------------------------------ MODULE GenoLaws ------------------------------
(***************************************************************************)
(* C11 laws evaluated BY TLC on relations observed on the real code.       *)
(* Obs is a sequence of records, one per spec:                             *)
(*   spec    the abstract spec (as exported by GenoExport)                 *)
(*   size    spec.space_size                                               *)
(*   iter    list(spec.iter_dna()) as raw trees   (finite specs)           *)
(*   lt      lt[j] = (iter[j] < iter[j+1]) as answered by DNA.__lt__       *)
(*   endnone spec.next_dna(last) is None                                   *)
(*   sweep   proposals of pg.geno.Sweeping ; hassweep                      *)
(*   recov   <<r, pending, num_proposals after recover, proposals after a  *)
(*           fresh Sweeping recovered a history of r proposals whose last  *)
(*           `pending` rewards are None, past-the-end record>>             *)
(*   sweep_end  past-the-end record of the plain sweep: <<outcomes of 3    *)
(*           more propose() calls, a second iteration, num_proposals>>     *)
(*   nexts   <<tree, next tree | <<"x",0,<<>>>> >> from freshly built DNAs *)
(*   resume  <<position, list(iter[position].iter_dna())>> or <<0, <<>>>>  *)
(*   probes  <<label, tree as built, validate ok, bind ok>>                *)
(*   random  trees of random_dna / pg.geno.Random proposals                *)
(*   errs    exceptions raised where none is allowed                       *)
(* The verdict is a sequence of failure records written to OUT_FILE; the   *)
(* harness only classifies them against the known findings.                *)
(***************************************************************************)
EXTENDS Geno, Json, IOUtils

Obs == JsonDeserialize(IOEnv.OBS_FILE)

NoNext == <<"x", 0, <<>>>>
Fail(i, law, w) == <<[i |-> i, law |-> law, w |-> w, cause |-> "-"]>>
Idx(seq, P(_)) == { j \in 1..Len(seq) : P(seq[j]) }
SeqIf(c, s) == IF c THEN s ELSE <<>>

PosOf(seq, t) == IF \E j \in 1..Len(seq) : seq[j] = t THEN CHOOSE j \in 1..Len(seq) : seq[j] = t ELSE 0

IterLaws(i, o, vt) ==
  LET it == o.iter
      n == Len(it)
      rng == Range(it)
      notup == { j \in 1..(n-1) : ~TreeLess(it[j], it[j+1]) }
      notlt == { j \in 1..Len(o.lt) : ~o.lt[j] }
      extra == { j \in 1..n : it[j] \notin vt }
      missing == vt \ rng
      badnext == { j \in 1..Len(o.nexts) :
                     LET p == PosOf(it, o.nexts[j][1]) IN
                     p = 0 \/ o.nexts[j][2] # (IF p = n THEN NoNext ELSE it[p+1]) }
  IN SeqIf(n # Size(o.spec), Fail(i, "count_vs_Size", <<n, Size(o.spec)>>))
  \o SeqIf(n # o.size, Fail(i, "count_vs_space_size", <<n, o.size>>))
  \o SeqIf(Cardinality(rng) # n, Fail(i, "pairwise_distinct", <<n, Cardinality(rng)>>))
  \o SeqIf(extra # {}, Fail(i, "iter_yields_invalid", it[Min(extra \cup {n})]))
  \o SeqIf(missing # {}, Fail(i, "iter_misses_valid", SetToSeq(missing)[1]))
  \o SeqIf(notup # {}, Fail(i, "strictly_increasing", <<it[Min(notup \cup {n})], it[Min(notup \cup {n-1}) + 1]>>))
  \o SeqIf(notlt # {} \/ Len(o.lt) # n - 1, Fail(i, "strictly_increasing_by_dna_lt", notlt))
  \o SeqIf(~o.endnone, Fail(i, "no_successor_at_end", it[n]))
  \o SeqIf(badnext # {}, Fail(i, "next_of_rebuilt_dna", o.nexts[Min(badnext \cup {Len(o.nexts)})]))
  \o SeqIf(o.hassweep /\ o.sweep # it, Fail(i, "sweeping_same_sequence", <<Len(o.sweep), n>>))
  \* recover(history) then continue: whatever number of trailing proposals is still pending (reward None), the
  \* recovered sweeper has made Len(history) proposals and goes on with the enumeration suffix
  \o LET badrec == { j \in 1..Len(o.recov) :
                       o.recov[j][3] # o.recov[j][1] \/ o.recov[j][4] # SubSeq(it, o.recov[j][1] + 1, n) } IN
     SeqIf(badrec # {}, Fail(i, "sweeping_after_recover", o.recov[Min(badrec \cup {Len(o.recov)})]))
  \* an exhausted sweeper stays exhausted (`done` is absorbing in the odometer): polling it again raises
  \* StopIteration every time, iterating it again yields nothing, and it has made exactly n proposals
  \o LET ends == (IF o.hassweep /\ o.sweep_end[3] # -1 THEN <<o.sweep_end>> ELSE <<>>)
                  \o [j \in 1..Len(o.recov) |-> o.recov[j][5]]
         badend == { j \in 1..Len(ends) : \/ \E k \in 1..Len(ends[j][1]) : ends[j][1][k] # NoNext
                                          \/ ends[j][2] # <<>>
                                          \/ ends[j][3] # n }
     IN SeqIf(badend # {}, Fail(i, "sweeping_exhausted_stays_exhausted", ends[Min(badend \cup {Len(ends)})]))
  \o SeqIf(o.resume[1] > 0 /\ o.resume[2] # SubSeq(it, o.resume[1] + 1, n), Fail(i, "iter_resumes_after", o.resume[1]))

\* Why was an invalid tree accepted?  "neg": it is a valid tree except that some indices are negative
\* (Python's candidates[-1]); "stray_value": it is a valid tree except that a node that must carry no
\* value (multi-choice / multi-element space) carries an int; "float_with_children": a valid tree except
\* that a float leaf was given children; "other": anything else.
RECURSIVE SameBut(_,_,_)
SameBut(a, b, how) ==
  /\ \/ TVal(a) = TVal(b)
     \/ how = "neg" /\ TKind(a) = "i" /\ TKind(b) = "i" /\ TNum(a) < 0
     \/ how = "stray_value" /\ TKind(a) = "i" /\ TKind(b) = "n"
  /\ \/ how = "float_with_children" /\ TKind(a) = "f" /\ TKids(b) = <<>>
     \/ /\ Len(TKids(a)) = Len(TKids(b))
        /\ \A j \in 1..Len(TKids(a)) : SameBut(TKids(a)[j], TKids(b)[j], how)
\* The DNA layout table leaves the children of a custom (string) decision "user defined": a string node
\* with children is neither required to be accepted nor to be rejected (don't-care, not compared).
RECURSIVE DontCare(_)
DontCare(t) == \/ TKind(t) = "s" /\ TKids(t) # <<>>
               \/ \E j \in 1..Len(TKids(t)) : DontCare(TKids(t)[j])

Cause(t, vt) == IF \E v \in vt : SameBut(t, v, "neg") THEN "neg"
                ELSE IF \E v \in vt : SameBut(t, v, "stray_value") THEN "stray_value"
                ELSE IF \E v \in vt : SameBut(t, v, "float_with_children") THEN "float_with_children"
                ELSE "other"

ProbeLaws(i, o, vt) ==
  LET P == o.probes
      C == { j \in 1..Len(P) : ~DontCare(P[j][2]) }
      va == { j \in C : P[j][3] /\ P[j][2] \notin vt }
      vr == { j \in C : ~P[j][3] /\ P[j][2] \in vt }
      ba == { j \in C : P[j][4] /\ P[j][2] \notin vt }
      br == { j \in C : ~P[j][4] /\ P[j][2] \in vt }
      F(S, law, acc) == LET ss == SetToSeq(S) IN
                        [j \in 1..Len(ss) |-> [i |-> i, law |-> law, w |-> P[ss[j]],
                                               cause |-> IF acc THEN Cause(P[ss[j]][2], vt) ELSE "valid"]]
  IN F(va, "validate_accepts_invalid", TRUE) \o F(vr, "validate_rejects_valid", FALSE)
  \o F(ba, "bind_accepts_invalid", TRUE) \o F(br, "bind_rejects_valid", FALSE)

RandomLaws(i, o, vt) ==
  LET bad == { j \in 1..Len(o.random) : o.random[j] \notin vt }
  IN SeqIf(bad # {}, Fail(i, "random_dna_not_valid", o.random[Min(bad \cup {Len(o.random)})]))

Failures(i) ==
  LET o == Obs[i]
      vt == ValidTrees(o.spec)
      fin == Size(o.spec) # INF
  IN SeqIf(~WellFormed(o.spec), Fail(i, "harness_spec_not_wellformed", 0))
  \o SeqIf(o.errs # <<>>, Fail(i, "unexpected_exception", o.errs))
  \o SeqIf(~fin /\ o.size # INF, Fail(i, "count_vs_space_size", <<INF, o.size>>))
  \o SeqIf(fin, IterLaws(i, o, vt))
  \o ProbeLaws(i, o, vt)
  \o RandomLaws(i, o, vt)

AllFailures == FlattenSeq([i \in 1..Len(Obs) |-> Failures(i)])

ASSUME /\ JsonSerialize(IOEnv.OUT_FILE, AllFailures)
       /\ PrintT(<<"laws evaluated on", Len(Obs), "specs; failures", Len(AllFailures)>>)
=============================================================================
