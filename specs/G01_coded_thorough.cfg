SPECIFICATION SpecCells
CONSTANTS
  Tier = "thorough"
  Mode = "design"
  SameRule = "coded"
INVARIANT LawsHoldOutsideZones
