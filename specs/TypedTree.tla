------------------------------ MODULE TypedTree ------------------------------
(***************************************************************************)
(* C03 - the schema invariant of typed symbolic containers.                *)
(*                                                                         *)
(* The state is the content of ONE container that carries a schema:        *)
(*   Kind = "dict"  pg.Dict with value spec  {k1: Int(min 0) required,     *)
(*                  k2: Int default 1, k3: List(Int(0..2), 1..3 elements), *)
(*                  StrKey('^d'): Str}  (dynamic keys d7, d8)              *)
(*   Kind = "list"  pg.List with value spec List(Int(0..2), min 1, max 3)  *)
(*   Kind = "obj"   a pg.Object class {k1: Int(min 0) required, k2: Int    *)
(*                  frozen to 1, k3: List(Int(0..2), 0..2 elements), k4:   *)
(*                  Str noneable}                                          *)
(* as a value record of ValueSpec.tla (stored MISSING = VMissing).  There  *)
(* is one action per public write path; each is fired with acceptable and  *)
(* with every kind of unacceptable argument.  An action says: the schema   *)
(* (Acc / App of ValueSpec.tla, plus the size bounds) accepts the write => *)
(* the completed value is stored; otherwise out = "err" (a TypeError,      *)
(* ValueError or KeyError) and the content is unchanged - a batch may keep *)
(* its earlier valid elements (`alts` = every admissible content).         *)
(*                                                                         *)
(* Mirror = TRUE switches two mechanisms to what the code does at the      *)
(* pinned tree (deleting an element never looks at min_size; rebind-append *)
(* / rebind-insert never look at max_size) so that TLC can search the      *)
(* coded design for violations of the same invariant.                      *)
(***************************************************************************)
EXTENDS ValueSpec, Randomization
PS == INSTANCE PySeq          \* CPython slice semantics (validated against the interpreter by C02)

CONSTANTS Kind,          \* "dict" | "list" | "list2" (bounds 2..5, for extended slices) | "obj" | "nest" (nested objects)
          InitPartial,   \* the container was created with allow_partial = TRUE
          Mirror,        \* FALSE: intended semantics; TRUE: size checks as coded
          MaxLevel,      \* depth bound
          SimK,          \* 0: quantify over whole argument sets; k > 0: k random members (simulation)
          Small,         \* TRUE: reduced argument pools (exhaustive configurations)
          Avoid,         \* TRUE: second simulation pass that stays away from the two mechanisms with open findings
                         \*       (element removal at min_size, rebind-append/insert at max_size) to keep behaviours long
          AccW,          \* the container's accessor_writable flag (objects: allow_symbolic_assignment)
          Acts           \* enabled action families

VARIABLES root,          \* content (value record)
          pok,           \* the value was explicitly made partial (constructor flag or a write under allow_partial(True))
          out,           \* "ok" | "err" : outcome of the last call
          alts,          \* contents the last call may legitimately have left (singleton unless a batch was rejected)
          act,           \* the last call (history variable for the replay)
          ext            \* Kind = "nest": content of a second, free-standing object that is written into the holder
vars == <<root, pok, out, alts, act, ext>>
view == <<root, pok, out, ext>>

P(Q) == IF SimK = 0 \/ Cardinality(Q) <= SimK THEN Q ELSE RandomSubset(SimK, Q)

---------------------------------------------------------------------------
(* The schemas *)
ElemS == IntS(0, 2, FALSE)
IsListKind == Kind \in {"list", "list2"}
LSpec == IF Kind = "obj" THEN ListS(ElemS, 0, 2)                           \* the object's list may be empty, holds at most 2
         ELSE IF Kind = "list2" THEN ListS(ElemS, 2, 5) ELSE ListS(ElemS, 1, 3)
\* k2 of the dict is noneable with a non-None default, k2 of the object is noneable AND frozen to 1
\* The dynamic key field is declared BEFORE constant keys, one of which (d5) has a name the dynamic pattern matches
\* too: a declared constant key always wins.  The non-partial dict uses the regex key StrKey('^d') (keys 5..8 = 'd5'..
\* 'd8'; 'k9' is undeclared), the partial-mode dict the unconstrained StrKey() (every other key is dynamic).
DSpec == DictS(<< <<1, IntS(0, NONE, FALSE)>>, <<(IF InitPartial THEN -1 ELSE 0), StrS>>, <<2, Dflt(NonOf(I0), IntV(1))>>,
                  <<3, LSpec>>, <<5, IntS(0, NONE, FALSE)>> >>)
\* k10 of the object is a list that must stay empty (size = 0)
OSpec == DictS(<< <<1, IntS(0, NONE, FALSE)>>, <<2, Frz(NonOf(I0), IntV(1))>>, <<3, LSpec>>, <<4, NonOf(StrS)>>,
                  <<10, ListS(ElemS, 0, 0)>> >>)
\* Kind = "nest": a holder object H {k1: Object(A) required, k2: Int default 1} over the classes
\* A (id 11) {k1: Object(B) required, k2: Int default 1} and B (id 12) {k1: Int(min 0) required, k2: Str noneable}
BSpec == DictS(<< <<1, IntS(0, NONE, FALSE)>>, <<2, NonOf(StrS)>> >>)
ASpec == DictS(<< <<1, ObjS(12)>>, <<2, Dflt(I0, IntV(1))>> >>)
\* ... and k3: a Dict-typed field {k1: Int(min 0) required, k2: Int default 1}
DTS == DictS(<< <<1, IntS(0, NONE, FALSE)>>, <<2, Dflt(I0, IntV(1))>> >>)
HSpec == DictS(<< <<1, ObjS(11)>>, <<2, Dflt(I0, IntV(1))>>, <<3, DTS>> >>)
\* Values that are containers which already carry a value spec of their own:
\*   TD(mode, x): a pg.Dict bound to DTS, created in partial mode (1) or not (0), holding {k1: x, k2: 1}
\*   TL(variant, xs): a pg.List bound to the field's own list spec (0) or to the same spec with min_size 0 (1)
TD(mode, x) == V("tdict", mode, << <<1, x>>, <<2, IntV(1)>> >>)
TL(variant, xs) == V("tlist", variant, xs)
IsTyped(v) == v.t \in {"tdict", "tlist"}
Plain(v) == IF v.t = "tdict" THEN DictV(v.xs) ELSE IF v.t = "tlist" THEN ListV(v.xs) ELSE v
TypedKey == 3
BVal(x) == V("obj", 12, << <<1, x>>, <<2, VNone>> >>)
AVal(b) == V("obj", 11, << <<1, b>>, <<2, IntV(1)>> >>)
RECURSIVE HasMissing(_)
HasMissing(v) == \/ v = VMissing
                 \/ (v.t \in {"list", "tuple"} /\ \E i \in 1..Len(v.xs) : HasMissing(v.xs[i]))
                 \/ (v.t \in {"dict", "obj"} /\ \E i \in 1..Len(v.xs) : HasMissing(v.xs[i][2]))
RootSpec == CASE Kind = "dict" -> DSpec [] Kind = "obj" -> OSpec [] Kind = "nest" -> HSpec [] IsListKind -> LSpec
LKey == 3                       \* the field that holds the nested typed list
Lo == LSpec.lo
Hi == LSpec.hi

\* argument pools: acceptable values and every kind of unacceptable one
ElemPool == IF Small THEN {IntV(0), IntV(3), StrV(1)}
            ELSE {IntV(0), IntV(1), IntV(2), IntV(3), IntV(-1), StrV(1), VNone}
ListPool == IF Small THEN {ListV(<<>>), ListV(<<IntV(0)>>), ListV(<<IntV(0), IntV(3)>>)}
            ELSE {ListV(<<>>), ListV(<<IntV(1)>>), ListV(<<IntV(0), IntV(2)>>), ListV(<<IntV(1), IntV(3)>>),
                  ListV(<<IntV(0), IntV(0), IntV(0), IntV(0)>>), ListV(<<StrV(1)>>),
                  TL(0, <<IntV(1)>>), TL(0, <<IntV(0), IntV(2)>>), TL(1, <<>>)}
NestPool == {AVal(BVal(IntV(0))), AVal(BVal(IntV(2))), AVal(BVal(VMissing)), AVal(VMissing), BVal(IntV(0)),
             IntV(0), IntV(-1), VNone, VMissing,
             TD(0, IntV(0)), TD(1, IntV(2)), TD(1, VMissing),
             DictV(<< <<1, IntV(0)>> >>), DictV(<<>>), DictV(<< <<1, IntV(-1)>> >>), DictV(<< <<1, IntV(0)>>, <<9, IntV(0)>> >>)}
FieldPool == IF Kind = "nest" THEN NestPool
             ELSE (IF Small THEN {IntV(0), IntV(-1), StrV(1), VNone, VMissing}
                   ELSE {IntV(0), IntV(1), IntV(2), IntV(-1), StrV(1), StrV(2), VNone, VMissing}) \cup ListPool
DictKeys == IF Small THEN {1, 2, 3, 5, 7, 9} ELSE {1, 2, 3, 5, 7, 8, 9}     \* 5 constant 'd5'; 7, 8 dynamic; 9 undeclared (dynamic under StrKey())
ObjKeys == {1, 2, 3, 4, 9, 10}
KeysOf == IF Kind = "dict" THEN DictKeys ELSE IF Kind = "nest" THEN {1, 2, 3, 9} ELSE ObjKeys
Scopes == {"N", "T", "F"}                \* no allow_partial scope / allow_partial(True) / allow_partial(False)
Eff(sc) == IF sc = "N" THEN InitPartial ELSE sc = "T"
Seqs2(Q) == {<<>>} \cup {<<x>> : x \in Q} \cup {<<x, y>> : x \in Q, y \in Q}

ConstFieldIdx == {j \in 1..Len(RootSpec.fields) : RootSpec.fields[j][1] > 0}
---------------------------------------------------------------------------
(* Dict-like content *)
Put(c, k, v) == LET ks == SortedKeys({c.xs[i][1] : i \in 1..Len(c.xs)} \cup {k})
                IN DictV([n \in 1..Len(ks) |-> <<ks[n], IF ks[n] = k THEN v ELSE ValAt(c, ks[n])>>])
Rem(c, k) == DictV(SelectSeq(c.xs, LAMBDA kv : kv[1] # k))
FR(okk, c) == [ok |-> okk, c |-> c, dc |-> FALSE]
\* don't-care outcome: the content is unchanged, the call may or may not raise (out = "any")
FRAny(c) == [ok |-> FALSE, c |-> c, dc |-> TRUE]

\* A (possibly incomplete) dict content d written into a Dict-typed field f under effective allow_partial p:
\* a MISSING member / an absent required key is acceptable iff p, and is then stored as MISSING
DAccP(f, d, p) ==
  /\ \A i \in 1..Len(d.xs) : /\ MatchIdx(f, d.xs[i][1]) # 0
                               /\ IF d.xs[i][2] = VMissing THEN p \/ HasDefault(f.fields[MatchIdx(f, d.xs[i][1])][2])
                                  ELSE Acc(f.fields[MatchIdx(f, d.xs[i][1])][2], d.xs[i][2]) = "yes"
  /\ \A j \in 1..Len(f.fields) : (f.fields[j][1] > 0 /\ ~HasKey(d, f.fields[j][1])) => (p \/ HasDefault(f.fields[j][2]))
DAppP(f, d, p) ==
  LET ks == SortedKeys({k \in {f.fields[j][1] : j \in 1..Len(f.fields)} : k > 0} \cup {d.xs[i][1] : i \in 1..Len(d.xs)})
  IN DictV([n \in 1..Len(ks) |->
        LET g == f.fields[MatchIdx(f, ks[n])][2] IN
        <<ks[n], IF HasKey(d, ks[n]) /\ ValAt(d, ks[n]) # VMissing THEN App(g, ValAt(d, ks[n]))
                 ELSE IF HasDefault(g) THEN App(g, RefDefault(g)) ELSE VMissing>>])

\* one field write `c[k] = v` under effective allow_partial p (Appendix F: Dict.__setitem__)
FW(c, k, v, p) ==
  LET j == MatchIdx(RootSpec, k) IN
  IF j = 0 THEN (IF v = VMissing THEN FRAny(c)                              \* "delete" an undeclared (hence absent) key: nothing to do
                 ELSE FR(FALSE, c))                                         \* undeclared key: KeyError
  ELSE LET f == RootSpec.fields[j][2]
           const == RootSpec.fields[j][1] > 0
       IN IF v = VMissing /\ ~const THEN FR(TRUE, IF HasKey(c, k) THEN Rem(c, k) ELSE c)    \* MISSING deletes a dynamic key
          ELSE IF v = VMissing /\ f.t = "Dict" /\ f.fields # <<>> /\ ~HasDefault(f)
               THEN (IF DAccP(f, DictV(<<>>), p)                                         \* a Dict-typed field falls back to the
                     THEN FR(TRUE, Put(c, k, DAppP(f, DictV(<<>>), p))) ELSE FR(FALSE, c))  \* dict of its members' defaults (partial => needs p)
          ELSE IF v = VMissing
               THEN (IF HasDefault(f) THEN FR(TRUE, Put(c, k, App(f, RefDefault(f))))     \* MISSING restores the default
                     ELSE IF p THEN FR(TRUE, Put(c, k, VMissing))                         \* ... or leaves the field missing when partial
                     ELSE FR(FALSE, c))                                                   \* ... else ValueError
          ELSE IF f.t = "Dict" /\ f.fields # <<>> /\ Plain(v).t = "dict"
               THEN (IF DAccP(f, Plain(v), p) THEN FR(TRUE, Put(c, k, DAppP(f, Plain(v), p))) ELSE FR(FALSE, c))
          ELSE IF Acc(f, Plain(v)) = "yes" /\ (p \/ ~HasMissing(v))     \* a partial value needs allow_partial
               THEN FR(TRUE, Put(c, k, App(f, Plain(v))))
          ELSE FR(FALSE, c)

\* Avoid = TRUE also stays away from rejected writes to a field that holds a symbolic child (open finding C03-F3:
\* the rejected write detaches that child), so that the second simulation pass keeps its behaviours long
HoldsNode(c, k) == HasKey(c, k) /\ ValAt(c, k).t \in {"list", "dict", "obj"}
AvoidOK(r, k) == ~Avoid \/ r.ok \/ r.dc \/ ~HoldsNode(root, k)

---------------------------------------------------------------------------
(* List content: every operation returns [ok, l (the result as coded), alts (every admissible result)] *)
R(okk, nl, al) == [ok |-> okk, l |-> nl, alts |-> al]
ROk(nl) == R(TRUE, nl, {nl})
RErr(l) == R(FALSE, l, {l})
SizeOK(n) == InRange(n, Lo, Hi)
Checked(l, nl) == IF SizeOK(Len(nl.xs)) THEN ROk(nl) ELSE RErr(l)
EAcc(v) == v # VMissing /\ Acc(ElemS, v) = "yes"
Cut(xs, a, b) == SubSeq(xs, 1, a) \o SubSeq(xs, b + 1, Len(xs))           \* xs without positions a+1..b (0-based a:b)
FirstBad(vs) == IF \E i \in 1..Len(vs) : ~EAcc(vs[i]) THEN CHOOSE i \in 1..Len(vs) : ~EAcc(vs[i]) /\ \A h \in 1..(i-1) : EAcc(vs[h]) ELSE 0
RECURSIVE Times(_,_)
Times(xs, n) == IF n <= 0 THEN <<>> ELSE xs \o Times(xs, n - 1)

LDelAt(l, i, mirror) == LET nl == ListV(Cut(l.xs, i, i + 1)) IN IF mirror THEN ROk(nl) ELSE Checked(l, nl)
LSetAt(l, i, v) == IF v = VMissing THEN LDelAt(l, i, Mirror)                                \* MISSING removes the element
                   ELSE IF EAcc(v) THEN ROk(ListV([l.xs EXCEPT ![i + 1] = App(ElemS, v)])) ELSE RErr(l)
LInsAt(l, i, v, mirror) == IF EAcc(v) /\ (mirror \/ Len(l.xs) + 1 <= Hi)
                           THEN ROk(ListV(SubSeq(l.xs, 1, i) \o <<v>> \o SubSeq(l.xs, i + 1, Len(l.xs)))) ELSE RErr(l)
LExtend(l, vs) ==
  LET bad == FirstBad(vs)
      fit == Len(l.xs) + Len(vs) <= Hi
      maxm == IF bad = 0 THEN Len(vs) - 1 ELSE bad - 1
      pre(m) == ListV(l.xs \o SubSeq(vs, 1, m))
  IN IF bad = 0 /\ fit THEN ROk(pre(Len(vs)))
     ELSE R(FALSE, IF fit THEN pre(bad - 1) ELSE l,                                          \* as coded: total size first, then element-wise
            {pre(m) : m \in {m \in 0..maxm : Len(l.xs) + m <= Hi}})
LSetSlice(l, a, b, vs) ==
  LET w == b - a
      full == ListV(SubSeq(l.xs, 1, a) \o vs \o SubSeq(l.xs, b + 1, Len(l.xs)))
      bad == FirstBad(vs)
      part(m) == ListV(SubSeq(l.xs, 1, a) \o SubSeq(vs, 1, m) \o SubSeq(l.xs, a + (IF m < w THEN m ELSE w) + 1, Len(l.xs)))
  IN IF bad = 0 THEN Checked(l, full)
     ELSE R(FALSE, IF SizeOK(Len(full.xs)) THEN part(bad - 1) ELSE l,
            {l} \cup {part(m) : m \in {m \in 1..(bad - 1) : SizeOK(Len(part(m).xs))}})
\* l *= n appends n-1 copies: a batch of (already valid) elements; when the result would be too long an
\* admissible outcome keeps any prefix of them that fits (as coded: whole copies, one extend per copy)
LTimes(l, n) ==
  LET full == ListV(Times(l.xs, n))
      extra == Times(l.xs, n - 1)
      kmax == CHOOSE k \in 1..n : k * Len(l.xs) <= Hi /\ \A h \in (k + 1)..(n - 1) : h * Len(l.xs) > Hi
  IN IF n <= 1 \/ SizeOK(Len(full.xs)) THEN Checked(l, full)
     ELSE R(FALSE, ListV(Times(l.xs, kmax)), {ListV(l.xs \o SubSeq(extra, 1, m)) : m \in {m \in 0..Len(extra) : Len(l.xs) + m <= Hi}})
LReb2(l, i, v, j, w) ==                                                                      \* two replacements, i < j
  LET ri == ListV([l.xs EXCEPT ![i + 1] = v])
      rj == ListV([l.xs EXCEPT ![j + 1] = w])
  IN IF EAcc(v) /\ EAcc(w) THEN ROk(ListV([l.xs EXCEPT ![i + 1] = v, ![j + 1] = w]))
     ELSE R(FALSE, IF EAcc(w) THEN rj ELSE l,                                                \* as coded: descending path order
            {l} \cup (IF EAcc(v) THEN {ri} ELSE {}) \cup (IF EAcc(w) THEN {rj} ELSE {}))

\* where the list lives
HasList == IF IsListKind THEN TRUE ELSE Kind # "nest" /\ HasKey(root, LKey) /\ ValAt(root, LKey).t = "list"
TheList == IF IsListKind THEN root ELSE ValAt(root, LKey)
Lift(nl) == IF IsListKind THEN nl ELSE Put(root, LKey, nl)
Len0 == Len(TheList.xs)

---------------------------------------------------------------------------
(* Transitions *)
Step(okk, nroot, nalts, sc, a) ==
  /\ out' = IF okk THEN "ok" ELSE "err"
  /\ alts' = nalts
  /\ root' \in (IF SimK = 0 THEN nalts ELSE {nroot})        \* simulation follows the result as coded
  /\ pok' = (pok \/ (sc = "T"))
  /\ act' = a
  /\ ext' = ext
StepL(r, a) == Step(r.ok, Lift(r.l), {Lift(x) : x \in r.alts}, "N", a)
\* Accessor-style writes (d[k] = v, d.k = v, del d[k], and setdefault when it has to write) are refused with a
\* WritePermissionError -- before anything else is looked at, and nothing changes -- unless accessors are writable:
\* the container's own flag, overridden by a pg.allow_writable_accessors(True / False) scope.  Methods (pop, clear,
\* update, |=, rebind, the constructor) work whatever the flag and the scope are.
AScopes == IF ~Small THEN {"N", "T", "F"}
           ELSE IF Kind # "dict" THEN {"N"}                 \* (exhaustive runs: the dimension is explored on the dict kind)
           ELSE IF AccW THEN {"N", "F"} ELSE {"N", "T"}
EffW(aw) == IF aw = "N" THEN AccW ELSE aw = "T"
Refused(a) == /\ out' = "perm" /\ alts' = {root} /\ root' = root /\ pok' = pok /\ act' = a /\ ext' = ext
StepF(r, sc, a) == IF r.dc THEN /\ out' = "any" /\ alts' = {r.c} /\ root' = r.c /\ pok' = (pok \/ (sc = "T")) /\ act' = a /\ ext' = ext
                   ELSE Step(r.ok, r.c, {r.c}, sc, a)

\* ---- dict-like roots
FSet(name) == \E k \in P(KeysOf), v \in P(FieldPool), sc \in P(Scopes) :
                 /\ (sc = "N" \/ HasMissing(v))                     \* the scope matters for MISSING / partial values only
                 /\ ~(name = "OSetAttr" /\ k = 9)                    \* o.k9 = v creates a plain Python attribute
                 /\ (IsTyped(v) => k = TypedKey)                     \* a typed container is offered to the field of its type
                 /\ AvoidOK(FW(root, k, v, Eff(sc)), k)
                 /\ \E aw \in P(AScopes) :
                      IF EffW(aw) THEN StepF(FW(root, k, v, Eff(sc)), sc, <<name, sc, k, v, aw>>)
                      ELSE Refused(<<name, sc, k, v, aw>>)
DSet == "dset" \in Acts /\ Kind = "dict" /\ FSet("DSet")             \* d[k] = v   (v = MISSING: the marker assignment)
DSetAttr == "dset" \in Acts /\ Kind = "dict" /\ FSet("DSetAttr")     \* d.k = v
OSetAttr == "oset" \in Acts /\ Kind \in {"obj", "nest"} /\ FSet("OSetAttr")      \* o.k = v    (k9: not generated, a plain attribute)
Rebind1(name) == \E k \in P(KeysOf), v \in P(FieldPool), sc \in P(Scopes) :
                 /\ (sc = "N" \/ HasMissing(v))
                 /\ (IsTyped(v) => k = TypedKey)
                 /\ AvoidOK(FW(root, k, v, Eff(sc)), k)
                 /\ StepF(FW(root, k, v, Eff(sc)), sc, <<name, sc, <<k>>, v>>)
DRebind1 == "rebind" \in Acts /\ Kind = "dict" /\ Rebind1("Rebind1")
ORebind1 == "rebind" \in Acts /\ Kind \in {"obj", "nest"} /\ Rebind1("Rebind1")
DDelLike(name) == \E k \in P(KeysOf), sc \in P(Scopes), aw \in P(AScopes) :
                 /\ AvoidOK(FW(root, k, VMissing, Eff(sc)), k)
                 /\ IF name = "DDel" /\ ~EffW(aw) THEN Refused(<<name, sc, k, aw>>)      \* pop is a method, del an accessor
                    ELSE StepF(IF HasKey(root, k) THEN FW(root, k, VMissing, Eff(sc)) ELSE FR(FALSE, root), sc, <<name, sc, k, aw>>)
DDel == "ddel" \in Acts /\ Kind = "dict" /\ DDelLike("DDel")         \* del d[k]
DPop == "ddel" \in Acts /\ Kind = "dict" /\ DDelLike("DPop")         \* d.pop(k)
RECURSIVE ClearAll(_,_,_)
ClearAll(c, ks, p) == IF ks = <<>> THEN FR(TRUE, c)
                      ELSE LET r == FW(c, ks[1], VMissing, p) IN IF r.ok THEN ClearAll(r.c, Tail(ks), p) ELSE FR(FALSE, c)
DClear == /\ "ddel" \in Acts /\ Kind = "dict"
          /\ \E sc \in P(Scopes), aw \in P(AScopes) :                     \* a method: the accessor flag / scope is irrelevant
               LET r == ClearAll(root, [i \in 1..Len(root.xs) |-> root.xs[i][1]], Eff(sc))
               IN (~Avoid \/ (r.ok /\ EffW(aw)))           \* (Avoid: open finding C03-F6, clear() while accessors are not writable)
                  /\ StepF(IF r.ok THEN r ELSE FR(FALSE, root), sc, <<"DClear", sc, aw>>)
DSetDefault == /\ "dset" \in Acts /\ Kind = "dict"
               /\ \E k \in P(KeysOf), v \in P(FieldPool \ {VMissing}), aw \in P(AScopes) :
                    /\ (IsTyped(v) => k = TypedKey) /\ AvoidOK(FW(root, k, v, InitPartial), k)
                    /\ IF HasKey(root, k) /\ ValAt(root, k) # VMissing THEN StepF(FR(TRUE, root), "N", <<"DSetDefault", "N", k, v, aw>>)
                       ELSE IF ~EffW(aw) THEN Refused(<<"DSetDefault", "N", k, v, aw>>)               \* it writes through d[k] = v
                       ELSE StepF(FW(root, k, v, InitPartial), "N", <<"DSetDefault", "N", k, v, aw>>)
\* batches of two field writes on different keys: update / |= / rebind with two paths
BatchPool == IF Small THEN {IntV(0), IntV(-1), StrV(1)} ELSE FieldPool \ {VMissing}
BatchKeys == IF Small /\ Kind = "dict" THEN {1, 5, 7, 9} ELSE KeysOf
Batch2(name) == \E k1 \in P(BatchKeys), k2 \in P(BatchKeys), v1 \in P(BatchPool), v2 \in P(BatchPool), sc \in P(Scopes) :
  /\ k1 # k2
  /\ (sc = "N" \/ (~Small /\ (HasMissing(v1) \/ HasMissing(v2))))      \* the scope matters for partial values only
  /\ (IsTyped(v1) => k1 = TypedKey) /\ (IsTyped(v2) => k2 = TypedKey)
  /\ AvoidOK(FW(root, k1, v1, Eff(sc)), k1) /\ AvoidOK(FW(root, k2, v2, Eff(sc)), k2)
  /\ LET r1 == FW(root, k1, v1, Eff(sc))
         r2 == FW(root, k2, v2, Eff(sc))
         both == FW(r1.c, k2, v2, Eff(sc))
     IN IF r1.ok /\ r2.ok THEN Step(TRUE, both.c, {both.c}, sc, <<name, sc, k1, v1, k2, v2>>)
        ELSE Step(FALSE, IF r1.ok THEN r1.c ELSE root,                                       \* as coded: in the given order
                  {root} \cup (IF r1.ok THEN {r1.c} ELSE {}) \cup (IF r2.ok THEN {r2.c} ELSE {}), sc, <<name, sc, k1, v1, k2, v2>>)
DUpdate == "batch" \in Acts /\ Kind = "dict" /\ Batch2("DUpdate")
DIor == "batch" \in Acts /\ Kind = "dict" /\ Batch2("DIor")
DRebind2 == "batch" \in Acts /\ Kind = "dict" /\ Batch2("Rebind2")
ORebind2 == "batch" \in Acts /\ Kind \in {"obj", "nest"} /\ Batch2("Rebind2")
\* the constructor as a write path: a new container of the same type is built from the current content without the
\* argument k (nothing is stored in this container; the driver inspects the new one)
CtorOmit == /\ "ctor" \in Acts /\ Kind \in {"dict", "obj", "nest"}
            /\ \E k \in P({RootSpec.fields[j][1] : j \in ConstFieldIdx}), sc \in P(Scopes) :
                 LET f == RootSpec.fields[FieldIdx(RootSpec, k)][2]
                     okk == HasDefault(f) \/ Eff(sc)
                     rest == IF \E i \in 1..Len(root.xs) : root.xs[i][1] # k /\ HasMissing(root.xs[i][2]) THEN Eff(sc) ELSE TRUE
                 IN Step(okk /\ rest, root, {root}, "N", <<"CtorOmit", sc, k>>)

\* ---- Kind = "nest": nested objects, partial values and non-partial holders
\* the free-standing object `ext` (it has a parent of its own, so the holder stores a copy) is written into the holder
\* (not generated: a partial `ext` written into a partial holder outside any scope -- the copy the holder makes is
\*  re-validated by the non-partial classes of `ext` and fails; stricter than the schema, not a violation of it)
NSetExt(name) == \E sc \in P(Scopes) : ~(HasMissing(ext) /\ sc = "N" /\ InitPartial) /\ AvoidOK(FW(root, 1, ext, Eff(sc)), 1) /\ StepF(FW(root, 1, ext, Eff(sc)), sc, <<name, sc>>)
NSetExtAttr == "nest" \in Acts /\ Kind = "nest" /\ NSetExt("NSetExtAttr")          \* holder.k1 = ext
NSetExtRebind == "nest" \in Acts /\ Kind = "nest" /\ NSetExt("NSetExtRebind")      \* holder.rebind(k1=ext)
\* a write to the leaf two levels below an A object: x.k1.k1 = v  (x = ext, or the A object the holder stores)
LeafPool == {IntV(0), IntV(2), IntV(-1), StrV(1), VMissing}
IsA(v) == v.t = "obj" /\ v.a = 11 /\ ValAt(v, 1).t = "obj"
SetLeaf(a, v) == V("obj", 11, << <<1, V("obj", 12, << <<1, v>>, <<2, ValAt(ValAt(a, 1), 2)>> >>)>>, <<2, ValAt(a, 2)>> >>)
LeafOK(v, p) == IF v = VMissing THEN p ELSE Acc(BSpec.fields[1][2], v) = "yes"
NLeaf == /\ "nest" \in Acts /\ Kind = "nest"
         /\ \E tgt \in P({"ext", "root"}), via \in P({"direct", "path", "attr"}), sc \in P(Scopes), v \in P(LeafPool) :
              /\ (sc = "N" \/ v = VMissing)
              /\ (tgt = "root" => HasKey(root, 1) /\ IsA(ValAt(root, 1)))
              /\ (tgt = "ext" => IsA(ext))
              /\ LET ok == LeafOK(v, sc = "T")                  \* none of these objects has allow_partial itself
                      nroot == IF ok /\ tgt = "root" THEN Put(root, 1, SetLeaf(ValAt(root, 1), v)) ELSE root
                  IN /\ out' = IF ok THEN "ok" ELSE "err"
                     /\ root' = nroot /\ alts' = {nroot}
                     /\ ext' = IF ok /\ tgt = "ext" THEN SetLeaf(ext, v) ELSE ext
                     /\ pok' = (pok \/ (sc = "T" /\ tgt = "root"))
                     /\ act' = <<"NLeaf", tgt, via, sc, v>>

\* ---- the typed list (the root itself, or the nested list at key 3)
CanShrink == ~Avoid \/ Len0 > Lo
CanGrow == ~Avoid \/ Len0 < Hi
LSet == "lset" \in Acts /\ HasList /\ \E i \in P(0..(Len0 - 1)), v \in P(ElemPool \cup {VMissing}) :
          (v = VMissing => CanShrink) /\ StepL(LSetAt(TheList, i, v), <<"LSet", i, v>>)                                     \* l[i] = v
LRebindSet == "rebind" \in Acts /\ HasList /\ \E i \in P(0..(Len0 - 1)), v \in P(ElemPool \cup {VMissing}) :
          (v = VMissing => CanShrink) /\ StepL(LSetAt(TheList, i, v), <<"LRebindSet", i, v>>)                               \* root.rebind({'k3[i]': v})
LRebindAppend == "rebind" \in Acts /\ HasList /\ CanGrow /\ \E v \in P(ElemPool) :
          StepL(LInsAt(TheList, Len0, v, Mirror), <<"LRebindAppend", Len0, v>>)              \* rebind({'k3[len]': v})
LRebindInsert == "rebind" \in Acts /\ HasList /\ CanGrow /\ \E i \in P(0..Len0), v \in P(ElemPool) :
          StepL(LInsAt(TheList, i, v, Mirror), <<"LRebindInsert", i, v>>)                    \* rebind({'k3[i]': pg.Insertion(v)})
LRebind2 == "batch" \in Acts /\ HasList /\ \E i \in P(0..(Len0 - 1)), j \in P(0..(Len0 - 1)), v \in P(ElemPool), w \in P(ElemPool) :
          i < j /\ StepL(LReb2(TheList, i, v, j, w), <<"LRebind2", i, v, j, w>>)
LDel == "ldel" \in Acts /\ HasList /\ CanShrink /\ \E i \in P(0..(Len0 - 1)) : StepL(LDelAt(TheList, i, Mirror), <<"LDel", i>>)
LPop == "ldel" \in Acts /\ HasList /\ CanShrink /\ \E i \in P(0..(Len0 - 1)) : StepL(LDelAt(TheList, i, Mirror), <<"LPop", i>>)
LRemove == "ldel" \in Acts /\ HasList /\ \E v \in P(ElemPool) :
          StepL(IF \E i \in 1..Len0 : TheList.xs[i] = v
                THEN LDelAt(TheList, (CHOOSE i \in 1..Len0 : TheList.xs[i] = v /\ \A h \in 1..(i-1) : TheList.xs[h] # v) - 1, FALSE)
                ELSE RErr(TheList), <<"LRemove", v>>)
LClear == "ldel" \in Acts /\ HasList /\ StepL(Checked(TheList, ListV(<<>>)), <<"LClear">>)
LDelSlice == "slice" \in Acts /\ HasList /\ \E a \in P(0..Len0), b \in P(0..Len0) :
          a < b /\ StepL(Checked(TheList, ListV(Cut(TheList.xs, a, b))), <<"LDelSlice", a, b>>)
LSetSliceA == "slice" \in Acts /\ HasList /\ \E a \in P(0..Len0), b \in P(0..Len0), vs \in P(Seqs2(ElemPool)) :
          a <= b /\ StepL(LSetSlice(TheList, a, b, vs), <<"LSetSlice", a, b, vs>>)
\* extended slices (step # 1): deletion removes the selected positions, assignment needs as many values as positions
StepSet == {2, 3, -1, -2, -3}
Bounds(n) == {NONE, 0, 1, n - 1, n, -1}
LDelSliceX == "xslice" \in Acts /\ HasList /\ \E a \in P(Bounds(Len0)), b \in P(Bounds(Len0)), k \in P(StepSet) :
          StepL(Checked(TheList, ListV(PS!SliceDelete(TheList.xs, a, b, k))), <<"LDelSliceX", a, b, k>>)
LSetSliceXR(l, a, b, k, vs) ==
  LET r == PS!SlicePositions(a, b, k, Len(l.xs))
      bad == FirstBad(vs)
      part(m) == ListV([i \in 1..Len(l.xs) |-> IF \E j \in 1..m : r[j] + 1 = i THEN vs[CHOOSE j \in 1..m : r[j] + 1 = i] ELSE l.xs[i]])
  IN IF Len(r) # Len(vs) THEN RErr(l)                                     \* ValueError: sizes differ
     ELSE IF bad = 0 THEN ROk(part(Len(vs)))
     ELSE R(FALSE, part(bad - 1), {part(m) : m \in 0..(bad - 1)})
LSetSliceX == "xslice" \in Acts /\ HasList /\ \E a \in P(Bounds(Len0)), b \in P(Bounds(Len0)), k \in P(StepSet), vs \in P(Seqs2(ElemPool)) :
          StepL(LSetSliceXR(TheList, a, b, k, vs), <<"LSetSliceX", a, b, k, vs>>)
LAppend == "lins" \in Acts /\ HasList /\ \E v \in P(ElemPool) : StepL(LInsAt(TheList, Len0, v, FALSE), <<"LAppend", v>>)
LInsert == "lins" \in Acts /\ HasList /\ \E i \in P(0..Len0), v \in P(ElemPool) : StepL(LInsAt(TheList, i, v, FALSE), <<"LInsert", i, v>>)
LExtendA == "lins" \in Acts /\ HasList /\ \E vs \in P(Seqs2(ElemPool)) : StepL(LExtend(TheList, vs), <<"LExtend", vs>>)
LIadd == "inplace" \in Acts /\ HasList /\ \E vs \in P(Seqs2(ElemPool)) : StepL(LExtend(TheList, vs), <<"LIadd", vs>>)
LImul == "inplace" \in Acts /\ HasList /\ \E n \in P(0..3) : StepL(LTimes(TheList, n), <<"LImul", n>>)

Next == \/ DSet \/ DSetAttr \/ OSetAttr \/ DRebind1 \/ ORebind1 \/ DDel \/ DPop \/ DClear \/ DSetDefault
        \/ DUpdate \/ DIor \/ DRebind2 \/ ORebind2
        \/ LSet \/ LRebindSet \/ LRebindAppend \/ LRebindInsert \/ LRebind2 \/ LDel \/ LPop \/ LRemove \/ LClear
        \/ LDelSlice \/ LSetSliceA \/ LAppend \/ LInsert \/ LExtendA \/ LIadd \/ LImul
        \/ LDelSliceX \/ LSetSliceX \/ NSetExtAttr \/ NSetExtRebind \/ NLeaf \/ CtorOmit

L1 == ListV(<<IntV(1)>>)
L3 == ListV(<<IntV(1), IntV(2), IntV(0)>>)
InitRoots ==
  CASE Kind = "list" -> {L1, ListV(<<IntV(1), IntV(2)>>), L3}
    [] Kind = "list2" -> {L3, ListV(<<IntV(1), IntV(2), IntV(0), IntV(1)>>), ListV(<<IntV(1), IntV(2), IntV(0), IntV(1), IntV(2)>>)}
    [] Kind = "nest" -> {DictV(<< <<1, AVal(BVal(IntV(1)))>>, <<2, IntV(1)>>, <<3, DictV(<< <<1, IntV(0)>>, <<2, IntV(1)>> >>)>> >>)}
                        \cup (IF InitPartial THEN {DictV(<< <<1, VMissing>>, <<2, IntV(1)>>, <<3, DictV(<< <<1, VMissing>>, <<2, IntV(1)>> >>)>> >>)} ELSE {})
    [] Kind = "dict" -> {DictV(<< <<1, IntV(0)>>, <<2, IntV(1)>>, <<3, l>>, <<5, IntV(1)>> >>) : l \in {L1, L3}}
                        \cup {DictV(<< <<1, IntV(2)>>, <<2, IntV(0)>>, <<3, L1>>, <<5, IntV(0)>>, <<7, StrV(1)>> >>)}
                        \cup (IF InitPartial THEN {DictV(<< <<1, VMissing>>, <<2, IntV(1)>>, <<3, L1>>, <<5, IntV(1)>> >>)} ELSE {})
    [] Kind = "obj" -> {DictV(<< <<1, IntV(0)>>, <<2, IntV(1)>>, <<3, l>>, <<4, w>>, <<10, ListV(<<>>)>> >>) : l \in {L1, ListV(<<IntV(1), IntV(2)>>)}, w \in {VNone, StrV(1)}}
                        \cup (IF InitPartial THEN {DictV(<< <<1, VMissing>>, <<2, IntV(1)>>, <<3, L1>>, <<4, VNone>>, <<10, ListV(<<>>)>> >>)} ELSE {})
Init == /\ root \in InitRoots /\ pok = InitPartial /\ out = "ok" /\ alts = {root} /\ act = <<"Init">>
        /\ ext = IF Kind = "nest" THEN AVal(BVal(IntV(0))) ELSE VNone
Spec == Init /\ [][Next]_vars
LevelBound == TLCGet("level") <= MaxLevel

---------------------------------------------------------------------------
(* The property *)
\* a member is acceptable to its spec and is a fixed point of apply
MemberOK(f, v) == Acc(f, v) = "yes" /\ App(f, v) = v
DeclaredOnly(c) == \A i \in 1..Len(c.xs) : MatchIdx(RootSpec, c.xs[i][1]) # 0
ConstFields == {j \in 1..Len(RootSpec.fields) : RootSpec.fields[j][1] > 0}
RequiredPresent(c, partial) == \A j \in ConstFields :
   HasKey(c, RootSpec.fields[j][1]) /\ (ValAt(c, RootSpec.fields[j][1]) = VMissing => partial)
FrozenHeld(c) == \A j \in ConstFields : RootSpec.fields[j][2].frz =>
   HasKey(c, RootSpec.fields[j][1]) /\ ValAt(c, RootSpec.fields[j][1]) = RootSpec.fields[j][2].dflt
MemberOKP(f, v, partial) == IF f.t = "Dict" /\ f.fields # <<>> /\ v.t = "dict"
                            THEN DAccP(f, v, partial) /\ DAppP(f, v, partial) = v        \* a nested typed dict may be partial too
                            ELSE MemberOK(f, v)
MembersOK(c, partial) == \A i \in 1..Len(c.xs) :
   c.xs[i][2] = VMissing \/ MemberOKP(RootSpec.fields[MatchIdx(RootSpec, c.xs[i][1])][2], c.xs[i][2], partial)
ListOK(l) == SizeOK(Len(l.xs)) /\ \A i \in 1..Len(l.xs) : MemberOK(ElemS, l.xs[i])
ConformsTo(c, partial) ==
  IF IsListKind THEN ListOK(c)
  ELSE c.t = "dict" /\ DeclaredOnly(c) /\ RequiredPresent(c, partial) /\ FrozenHeld(c) /\ MembersOK(c, partial)
       /\ (HasMissing(c) => partial)                      \* nothing partial at any depth unless explicitly made partial
Conforms == ConformsTo(root, pok)                       \* INVARIANT: never a state the schema rejects
AltsConform == \A c \in alts : ConformsTo(c, pok)       \* ... whichever admissible prefix a rejected batch kept

IsBatch(a) == a[1] \in {"DUpdate", "DIor", "Rebind2", "LRebind2", "LExtend", "LIadd", "LSetSlice", "LSetSliceX", "LImul"}
\* a rejected write is not stored (a batch may have kept earlier valid elements: one of `alts`)
RejectedWriteNoStore == [][out' \in {"err", "any", "perm"} => /\ root \in alts'
                                           /\ root' \in alts'
                                           /\ (~IsBatch(act') => root' = root)
                                           /\ ext' = ext]_vars
=============================================================================
