SPECIFICATION Spec
CONSTANTS
  MaxNodes = 4
  Leafs = {101}
  MaxLen = 2
  MaxScope = 1
  MaxLevel = 5
  Mirror = FALSE
  Cache = "none"
  InitSet = "root"
  SimK = 0
CONSTRAINT LevelBound
VIEW view
INVARIANT TreeOK
INVARIANT ResolveIsNearestAncestor
INVARIANT ObsIsCurrent
INVARIANT ReadTotal
PROPERTY ReadDoesNotWrite
PROPERTY NoCacheStaleness
PROPERTY MoveChangesResolution
PROPERTY DetachCutsContext
PROPERTY AncestorWriteVisible
PROPERTY CloneIsIsolated
PROPERTY AttrsOverrideWins
PROPERTY PlainOverrideOnlyFillsGaps
PROPERTY ScopesLeaveTreesAlone
