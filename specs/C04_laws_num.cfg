SPECIFICATION Spec
CONSTANTS
  U = "num"
  Chunks = 4
INVARIANT Holds
