--------------------------- MODULE KeyPathParser ---------------------------
(***************************************************************************)
(* KeyPath.parse as the character-level automaton the code implements: one *)
(* transition per loop iteration over the variables pos / key_start /      *)
(* unmatched_brackets / keys (record `ps`), plus the final step after the  *)
(* loop.  The input is either ANY string over the alphabet (malformed ones *)
(* included) or the printed form Format(p) of a path p of the universe the *)
(* property quantifies over; in the second case `want` remembers p.        *)
(* TLC checks on every reachable state:                                    *)
(*   ParseFormat      - a printed path parses back to the same keys        *)
(*   DepthCounts      - `depth` is the number of unmatched '[' read so far *)
(*   AcceptsBalanced  - accepted strings have balanced brackets            *)
(*   KeyStartInRange / Progress - the loop consumes exactly one character  *)
(***************************************************************************)
EXTENDS KeyPath
CONSTANTS Alphabet, MaxStr, KeyLen, IntVals, PathDepth, WithFree
VARIABLES str, want, ps
vars == <<str, want, ps>>

KeyU == StrKeysUpTo(Alphabet, KeyLen) \cup IntKeysOf(IntVals)
PathU == UNION {[1..d -> KeyU] : d \in 0..PathDepth}
IV_small == {-11, -10, -1, 0, 1, 10, 11}
IV_tiny == {-1, 0, 10}
None == [has |-> FALSE, keys |-> <<>>]

Init == /\ ps = PInit
        /\ \/ WithFree /\ str \in SeqsUpTo(Alphabet, MaxStr) /\ want = None
           \/ \E p \in PathU : str = Format(p) /\ want = [has |-> TRUE, keys |-> p]
Step == /\ ps.st = "run"
        /\ ps' = PStep(str, ps)
        /\ UNCHANGED <<str, want>>
Next == Step
Spec == Init /\ [][Next]_vars

Count(c, n) == Cardinality({i \in 1..n : str[i] = c})
TypeOK == /\ ps.pos \in 1..(Len(str) + 1)
          /\ ps.ks \in 1..(Len(str) + 1)
          /\ ps.depth \in 0..Len(str)
          /\ ps.st \in {"run", "ok", "err"}
KeyStartInRange == ps.st = "run" => ps.ks <= ps.pos
DepthCounts == ps.st = "run" => ps.depth = Count(LB, ps.pos - 1) - Count(RB, ps.pos - 1)
AcceptsBalanced == ps.st = "ok" => Balanced(str)
ParseFormat == (want.has /\ ps.st # "run") => (ps.st = "ok" /\ ps.keys = want.keys)
\* the automaton and the closed form agree (the closed form is what the other modules use)
ClosedForm == ps.st # "run" => Parse(str) = [ok |-> ps.st = "ok", keys |-> IF ps.st = "ok" THEN ps.keys ELSE <<>>]
Progress == [][ps'.st # "run" \/ ps'.pos = ps.pos + 1]_vars
=============================================================================
