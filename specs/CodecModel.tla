----------------------------- MODULE CodecModel -----------------------------
(***************************************************************************)
(* Design-level search: TLC evaluates Dec(Enc(v)) = v for both forms on    *)
(* every value of the universe, classifies the MINIMAL counter-examples    *)
(* (no proper part is itself a counter-example) and checks that outside    *)
(* the four known collision classes the scheme is injective.  The          *)
(* counter-examples are candidates: pgverif/codec.py replays every value   *)
(* of the universe on the real code and CodecLaws.tla judges the result.   *)
(***************************************************************************)
EXTENDS CodecUniv, Json, IOUtils, SequencesExt
Bad(v, form) == ~RoundTrip(v, form)
Minimal(v, form) == Bad(v, form) /\ \A i \in 1..Len(v.xs) : ~Bad(v.xs[i], form)
MinClass(v, form) == IF Minimal(v, form) THEN (IF SelfCollides(v, form) THEN SelfClass(v, form) ELSE "unexplained") ELSE "no"
\* one row per value, each evaluated once (a set: TLC re-evaluates SetToSeq(...) on every indexed access)
RowSet == {[v |-> v, bobj |-> Bad(v, "obj"), bstr |-> Bad(v, "str"),
            cobj |-> ClassOf(v, "obj"), cstr |-> ClassOf(v, "str"),
            mobj |-> MinClass(v, "obj"), mstr |-> MinClass(v, "str")] : v \in ValU(0)}
\* every failure is explained by a collision class of some part of the value, and only those fail
Explained(u) == \A r \in RowSet : (r.bobj <=> (r.cobj # "plain")) /\ (r.bstr <=> (r.cstr # "plain"))
MinimalAreSelf(u) == \A r \in RowSet : r.mobj # "unexplained" /\ r.mstr # "unexplained"
Classes == {"marker_first_list", "empty_tuple", "type_str_key", "int_prefix_str_key"}
ASSUME PrintT(<<"model", "values", Cardinality(RowSet)>>)
ASSUME \A c \in Classes : PrintT(<<"design", c, "obj", Cardinality({r \in RowSet : r.mobj = c}),
                                   "str", Cardinality({r \in RowSet : r.mstr = c})>>)
ASSUME PrintT(<<"model", "Explained", Explained(0)>>)
ASSUME PrintT(<<"model", "MinimalAreSelf", MinimalAreSelf(0)>>)
ASSUME Explained(0) /\ MinimalAreSelf(0)
ASSUME JsonSerialize(IOEnv.OUT_FILE, [vals |-> SetToSeq({[v |-> r.v, cobj |-> r.cobj, cstr |-> r.cstr] : r \in RowSet})])
VARIABLE x
Init == x = 0
Next == UNCHANGED x
=============================================================================
