----------------------------- MODULE CodecModel -----------------------------
(***************************************************************************)
(* Design-level search: TLC evaluates Dec(Enc(v)) = v for both forms on    *)
(* every value of the universe, classifies the MINIMAL counter-examples    *)
(* (no proper part is itself a counter-example) and checks that outside    *)
(* the four known collision classes the scheme is injective.  The          *)
(* counter-examples are candidates: pgverif/codec.py replays every value   *)
(* of the universe on the real code and CodecLaws.tla judges the result.   *)
(***************************************************************************)
EXTENDS CodecUniv, Json, IOUtils, SequencesExt
USeq == SetToSeq(ValU(0))
N == Len(USeq)
Bad(v, form) == ~RoundTrip(v, form)
Minimal(v, form) == Bad(v, form) /\ \A i \in 1..Len(v.xs) : ~Bad(v.xs[i], form)
\* one row per value, each evaluated once.  (Only DATA is defined without parameters: TLC evaluates such
\* definitions once at start-up, in order; formulas over the data take a dummy argument so that they are not
\* evaluated before the data they refer to has been cached.)
Rows == [i \in 1..N |-> LET v == USeq[i] IN
          [v |-> v, bobj |-> Bad(v, "obj"), bstr |-> Bad(v, "str"),
           cobj |-> ClassOf(v, "obj"), cstr |-> ClassOf(v, "str"),
           mobj |-> IF Minimal(v, "obj") THEN (IF SelfCollides(v, "obj") THEN SelfClass(v, "obj") ELSE "unexplained") ELSE "no",
           mstr |-> IF Minimal(v, "str") THEN (IF SelfCollides(v, "str") THEN SelfClass(v, "str") ELSE "unexplained") ELSE "no"]]
\* every failure is explained by a collision class of some part of the value, and only those fail
Explained(u) == \A i \in 1..N : /\ Rows[i].bobj <=> (Rows[i].cobj # "plain")
                             /\ Rows[i].bstr <=> (Rows[i].cstr # "plain")
MinimalAreSelf(u) == \A i \in 1..N : Rows[i].mobj # "unexplained" /\ Rows[i].mstr # "unexplained"
Classes == {"marker_first_list", "empty_tuple", "type_str_key", "int_prefix_str_key"}
ASSUME PrintT(<<"model", "values", N>>)
ASSUME \A c \in Classes : PrintT(<<"design", c, "obj", Cardinality({i \in 1..N : Rows[i].mobj = c}),
                                   "str", Cardinality({i \in 1..N : Rows[i].mstr = c})>>)
ASSUME PrintT(<<"model", "Explained", Explained(0)>>)
ASSUME PrintT(<<"model", "MinimalAreSelf", MinimalAreSelf(0)>>)
ASSUME Explained(0) /\ MinimalAreSelf(0)
ASSUME JsonSerialize(IOEnv.OUT_FILE, [vals |-> [i \in 1..N |-> [v |-> Rows[i].v, cobj |-> Rows[i].cobj, cstr |-> Rows[i].cstr]]])
VARIABLE x
Init == x = 0
Next == UNCHANGED x
=============================================================================
