\* as coded: Evolution.recover takes num_generations from initial individuals
SPECIFICATION Spec
CONSTANTS
  Algs = {"regevo", "hill", "hill2", "nsga2", "neat", "sched"}
  D = 3
  N = 3
  W = 1
  L = 6
  MaxAtt = 3
  MaxCrash = 2
  InOrder = TRUE
  PModes = {"propose", "feedback"}
  Mirror = {"evo_gen"}
  LookAhead = 1
PROPERTY RecoverIsStutter
PROPERTY ContinuesSame
