SPECIFICATION Spec
CONSTANTS
  MaxNodes = 4
  Keys = {1}
  Leafs = {101, 160}
  Shapes = {200, 210, 223}
  MaxLen = 2
  Acts = {"dict", "list", "clone", "flags", "forget"}
  Mirror = FALSE
  MaxLevel = 4
  InitKinds <- IK_DictList
  SimK = 0
CONSTRAINT LevelBound
VIEW view
INVARIANT TreeOK
INVARIANT OnePlace
PROPERTY CloneOK
PROPERTY ContentLocality
