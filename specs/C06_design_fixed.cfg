SPECIFICATION Spec
CONSTANTS
  Tier = "quick"
  Canonical = TRUE
  T <- RefT
INVARIANT LawsHold
INVARIANT SortTotal
