SPECIFICATION Spec
CONSTANTS
  Tier = "quick"
  Variant = "ref"
  MaxLevel = 0
  SimK = 0
INVARIANT ObsAgreesWithRef
INVARIANT ObsAgree
INVARIANT ObsQueryIsDesc
INVARIANT ObsDescRel
INVARIANT ObsPatchIsQuery
INVARIANT ObsNotifOrder
