SPECIFICATION Spec
CONSTANTS
  U = "quick"
  Kind = "obj"
  InitPartial = TRUE
  Mirror = FALSE
  MaxLevel = 3
  Small = TRUE
  Avoid = FALSE
  SimK = 0
  AccW = TRUE
  Acts = {"oset", "rebind", "batch", "ldel", "ctor"}
CONSTRAINT LevelBound
VIEW view
INVARIANT Conforms
INVARIANT AltsConform
PROPERTY RejectedWriteNoStore
