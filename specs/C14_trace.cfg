\* C14 code level: batched validation of recorded operator applications (run with -workers 1)
SPECIFICATION Spec
CONSTRAINT Reg
POSTCONDITION Post
