SPECIFICATION Spec
CONSTANTS
  MaxDepth = 1
  MaxScopes = 0
  FullDepth = 2
  Stride = 8
  Stride2 = 9
  HistLen = 5
