SPECIFICATION Spec
CONSTANTS
  MaxDepth = 2
