SPECIFICATION Spec
CONSTANTS
  MaxPos = 3
  KwNames = {1, 2, 3, 11, 12, 21, 22}
  MaxArgs = 4
  MaxKw = 3
  MaxSteps = 1000
  MaxRebind = 3
  CtorModeSet = {"distinct", "equal", "boxed", "asdefault"}
  CallModeSet = {"distinct", "equal", "asbound"}
  FlagAtSet = {"init", "call"}
  AsCoded = FALSE
  SimK = 5
INVARIANT TypeOK
INVARIANT EffectiveWellDefined
