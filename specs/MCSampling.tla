----------------------------- MODULE MCSampling -----------------------------
(* Model-checking wrapper for Sampling.tla: configuration sets for the C16 cfg files. *)
EXTENDS Sampling

AllOps == {"done", "skip", "early", "done_end"}
CfgW(nw, groups, n, ops, evo, warm) ==
  [nw |-> nw, groups |-> groups, n |-> n, ops |-> ops, reward |-> <<2, 3, 3, 1, 2, 3, 1, 2, 3, 1, 2, 3>>, evo |-> evo, warm |-> warm, named |-> TRUE]
Unnamed(c) == [c EXCEPT !.named = FALSE]
Cfg(nw, groups, n, ops, evo) == CfgW(nw, groups, n, ops, evo, FALSE)

OpMixes == {{"done"}, {"done", "skip"}, {"done", "early"}, {"done", "done_end"}}

\* two workers: different groups / one group, every mix of user steps, both algorithm kinds
Two(n) == {Cfg(2, g, n, ops, evo) : g \in {<<1, 2>>, <<1, 1>>}, ops \in OpMixes, evo \in BOOLEAN}
TwoN3 == Two(3)
TwoN2 == Two(2)
\* small instances for the documented counter-examples
TwoDiffDone == {Cfg(2, <<1, 2>>, 2, {"done"}, FALSE)}
TwoSameDone == {Cfg(2, <<1, 1>>, 2, {"done"}, FALSE)}
TwoSameDoneEvo == {Cfg(2, <<1, 1>>, 2, {"done"}, TRUE)}
TwoDiffDoneEvo == {Cfg(2, <<1, 2>>, 2, {"done"}, TRUE)}
\* liveness instance
Live == {Cfg(2, g, 2, {"done", "done_end"}, evo) : g \in {<<1, 2>>, <<1, 1>>}, evo \in BOOLEAN}
LiveBig == {Cfg(2, g, 2, ops, evo) : g \in {<<1, 2>>, <<1, 1>>}, ops \in {{"done", "skip"}, {"done", "done_end"}, {"done", "early"}}, evo \in BOOLEAN}
\* three workers, started one after the other (the constructor races are covered by the 2-worker sets)
ThreeGroups == {<<1, 2, 3>>, <<1, 1, 2>>, <<1, 1, 1>>}
ThreeWarm == {CfgW(3, g, 2, ops, evo, TRUE) : g \in ThreeGroups, ops \in {{"done"}, {"done", "skip"}}, evo \in BOOLEAN}
             \cup {CfgW(3, <<1, 1, 2>>, 2, {"done", "done_end"}, evo, TRUE) : evo \in BOOLEAN}
ThreeWarmN3 == {CfgW(3, <<1, 2, 3>>, 3, {"done"}, evo, TRUE) : evo \in BOOLEAN} \cup {CfgW(3, <<1, 1, 2>>, 3, {"done"}, FALSE, TRUE)}
ThreeCold == {CfgW(3, g, 2, {"done"}, evo, FALSE) : g \in {<<1, 2, 3>>, <<1, 1, 2>>}, evo \in BOOLEAN}
Boundary == {Unnamed(Cfg(2, <<1, 2>>, 2, {"done", "skip"}, evo)) : evo \in BOOLEAN}      \* name=None
            \cup {Cfg(2, g, n, {"done", "done_end"}, FALSE) : g \in {<<1, 2>>, <<1, 1>>}, n \in {0, 1}}   \* num_examples 0, 1
QuickSet == Two(2) \cup {CfgW(2, g, 3, {"done", "skip"}, evo, TRUE) : g \in {<<1, 2>>, <<1, 1>>}, evo \in BOOLEAN} \cup Boundary
\* configuration sets for simulation (S->C forcing): all group assignments of 2 and 3 workers, bigger
\* crews with representative assignments
MixesPlus == OpMixes \cup {AllOps, {"skip", "early"}}
SimEdge == {Unnamed(CfgW(nw, g, n, ops, evo, FALSE)) : nw \in {2}, g \in {<<1, 2>>, <<1, 1>>}, n \in {0, 1, 2}, ops \in OpMixes, evo \in BOOLEAN}
           \cup {CfgW(2, g, n, ops, evo, warm) : g \in {<<1, 2>>, <<1, 1>>}, n \in {0, 1}, ops \in OpMixes, evo \in BOOLEAN, warm \in BOOLEAN}
SimSmall == SimEdge \cup {CfgW(2, g, n, ops, evo, warm) : g \in {<<1, 2>>, <<1, 1>>}, n \in {2, 3}, ops \in MixesPlus,
                                            evo \in BOOLEAN, warm \in BOOLEAN}
            \cup {CfgW(3, g, n, ops, evo, warm) : g \in ThreeGroups, n \in {2, 3}, ops \in MixesPlus,
                                                  evo \in BOOLEAN, warm \in BOOLEAN}
SimBig == {CfgW(Len(g), g, n, ops, evo, warm) :
             g \in {<<1, 1, 2, 2>>, <<1, 2, 3, 4>>, <<1, 1, 1, 2>>, <<1, 1, 2, 2, 3, 3>>, <<1, 2, 3, 4, 5, 6>>,
                    <<1, 1, 1, 1, 2, 2, 3, 4>>, <<1, 2, 3, 4, 5, 6, 7, 8>>},
             n \in {3, 5}, ops \in MixesPlus, evo \in BOOLEAN, warm \in BOOLEAN}
\* instances for the counter-examples forced onto the code (generated cfgs)
CeCold(evo) == {CfgW(2, <<1, 2>>, 2, {"done"}, evo, FALSE)}
CeWarmSame(evo) == {CfgW(2, <<1, 1>>, 2, {"done"}, evo, TRUE)}
CeColdPlain == CeCold(FALSE)
CeColdEvo == CeCold(TRUE)
CeWarmSamePlain == CeWarmSame(FALSE)
CeWarmSameEvo == CeWarmSame(TRUE)
=============================================================================
