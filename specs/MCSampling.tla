----------------------------- MODULE MCSampling -----------------------------
(* Model-checking wrapper for Sampling.tla: configuration sets for the C16 cfg files. *)
EXTENDS Sampling

AllOps == {"done", "skip", "early", "done_end"}
CfgW(nw, groups, n, ops, evo, warm) ==
  [nw |-> nw, groups |-> groups, n |-> n, ops |-> ops, reward |-> <<2, 3, 3, 1>>, evo |-> evo, warm |-> warm]
Cfg(nw, groups, n, ops, evo) == CfgW(nw, groups, n, ops, evo, FALSE)

OpMixes == {{"done"}, {"done", "skip"}, {"done", "early"}, {"done", "done_end"}}

\* two workers: different groups / one group, every mix of user steps, both algorithm kinds
Two(n) == {Cfg(2, g, n, ops, evo) : g \in {<<1, 2>>, <<1, 1>>}, ops \in OpMixes, evo \in BOOLEAN}
TwoN3 == Two(3)
TwoN2 == Two(2)
\* small instances for the documented counter-examples
TwoDiffDone == {Cfg(2, <<1, 2>>, 2, {"done"}, FALSE)}
TwoSameDone == {Cfg(2, <<1, 1>>, 2, {"done"}, FALSE)}
TwoSameDoneEvo == {Cfg(2, <<1, 1>>, 2, {"done"}, TRUE)}
TwoDiffDoneEvo == {Cfg(2, <<1, 2>>, 2, {"done"}, TRUE)}
\* liveness instance
Live == {Cfg(2, g, 2, ops, evo) : g \in {<<1, 2>>, <<1, 1>>}, ops \in {{"done", "skip"}, {"done", "done_end"}}, evo \in BOOLEAN}
\* three workers, started one after the other (the constructor races are covered by the 2-worker sets)
ThreeGroups == {<<1, 2, 3>>, <<1, 1, 2>>, <<1, 1, 1>>}
ThreeWarm == {CfgW(3, g, 2, ops, evo, TRUE) : g \in ThreeGroups, ops \in {{"done"}, {"done", "skip"}, {"done", "done_end"}}, evo \in BOOLEAN}
ThreeWarmN3 == {CfgW(3, g, 3, {"done"}, evo, TRUE) : g \in ThreeGroups, evo \in BOOLEAN}
ThreeCold == {CfgW(3, g, 2, {"done"}, evo, FALSE) : g \in {<<1, 2, 3>>, <<1, 1, 2>>}, evo \in BOOLEAN}
QuickSet == Two(2) \cup {CfgW(2, g, 3, {"done", "skip"}, evo, TRUE) : g \in {<<1, 2>>, <<1, 1>>}, evo \in BOOLEAN}
=============================================================================
