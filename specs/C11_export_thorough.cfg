SPECIFICATION Spec
CONSTANTS
  IterUniverse <- U_tiny
  ExportUniverse <- U_thorough
  MaxSize = 100
  NumValid = 6
  NumBase = 2
  NumCorr = 32
