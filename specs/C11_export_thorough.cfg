SPECIFICATION Spec
CONSTANTS
  IterUniverse <- U_tiny
  ExportUniverse <- U_thorough
  MaxSize = 100
  NumValid = 8
  NumBase = 2
  NumCorr = 40
