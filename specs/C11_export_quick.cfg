SPECIFICATION Spec
CONSTANTS
  IterUniverse <- U_tiny
  ExportUniverse <- U_quick
  MaxSize = 40
  NumValid = 3
  NumBase = 1
  NumCorr = 16
