SPECIFICATION Spec
CONSTANTS
  IterUniverse <- U_tiny
  ExportUniverse <- U_quick
  MaxSize = 30
  NumValid = 3
  NumBase = 1
  NumCorr = 12
