------------------------------ MODULE EvoTrace ------------------------------
(***************************************************************************)
(* C14, code level: validates recorded applications of the shipped         *)
(* mutators, recombinators, selectors and operator expressions against the *)
(* contracts.  One trace = one search space + one population; one event =  *)
(* one application (inputs, outputs, inputs afterwards, the outputs of a   *)
(* second run with the same seed).  An event is accepted iff every         *)
(* contract clause holds; every rejected event is reported with the names  *)
(* of its failing clauses.                                                 *)
(*   Closed          every output is a valid DNA of the space (IsValid of  *)
(*                   EvoGeno, and spec.validate of the code agrees)        *)
(*   Aligned         every output node is bound to the decision point at   *)
(*                   its position (views equal those of a rebuilt DNA)     *)
(*   InputsUnchanged the population list passed in holds the same objects  *)
(*                   in the same order with the same decisions afterwards  *)
(*                   (after both applications)                             *)
(*   MembersOnly / Count / SubMultiset   for selectors                     *)
(*   SeedDeterministic   the second run returns the same                   *)
(*   HistoryIndependent / SequenceDeterministic   re-using the operator    *)
(*                   instance does not change what it returns              *)
(*   Exact           for expressions over deterministic selectors the      *)
(*                   output is EvalSet(expr, in) computed by EvoAlg        *)
(*   MemberOrFresh   for expressions with random parts / mutators: every   *)
(*                   output is a member of the input or a fresh valid DNA  *)
(***************************************************************************)
EXTENDS EvoAlg, EvoGeno, TLC, TLCExt, Json, IOUtils

Traces == ndJsonDeserialize(IOEnv.TRACE_FILE)

VARIABLES tid, l
vars == <<tid, l>>

Ev(t) == Traces[t].ev
SpecT(t) == Traces[t].spec

InIds(ev) == [i \in 1..Len(ev.in) |-> ev.in[i].id]
FitOf(ev) == [x \in {ev.in[i].id : i \in 1..Len(ev.in)} |->
                (CHOOSE i \in 1..Len(ev.in) : ev.in[i].id = x)]     \* position of first occurrence ...
FitVal(ev) == [x \in {ev.in[i].id : i \in 1..Len(ev.in)} |-> ev.in[FitOf(ev)[x]].fit]
OutIds(ev) == [i \in 1..Len(ev.out) |-> ev.out[i].id]
Occ(s, x) == Cardinality({i \in 1..Len(s) : s[i] = x})

GoodDNA(sp, o) == o.ok /\ o.valid /\ IsValid(sp, o.dna)

Clauses(sp, ev) ==
  LET ops == ev.kind \in {"mutator", "recombinator"}
      sel == ev.kind = "selector"
      ex  == ev.kind = "expr"
  IN [ NoRaise |-> ev.raised = "",
       Closed  |-> \A i \in 1..Len(ev.out) : (ops \/ ev.out[i].id = 0) => GoodDNA(sp, ev.out[i]),
       Aligned |-> \A i \in 1..Len(ev.out) : ev.out[i].aligned,
       InputsUnchanged |-> /\ Len(ev.in_after) = Len(ev.in)
                           /\ \A i \in 1..Len(ev.in) : /\ ev.in_after[i].id = ev.in[i].id      \* same objects, same order
                                                         /\ ev.in_after[i].dna = ev.in[i].dna,   \* same decisions
       MembersOnly |-> sel => \A i \in 1..Len(ev.out) : ev.out[i].id > 0,
       Count |-> (sel /\ ev.count >= 0) => Len(ev.out) = ev.count,
       SubMultiset |-> (sel /\ ev.submulti) => \A x \in RangeOf(OutIds(ev)) : Occ(OutIds(ev), x) <= Occ(InIds(ev), x),
       SeedDeterministic |-> /\ Len(ev.out2) = Len(ev.out)
                             /\ \A i \in 1..Len(ev.out) : ev.out2[i].id = ev.out[i].id /\ ev.out2[i].dna = ev.out[i].dna,
       \* the operator INSTANCE was applied again (value-equal parents with new fitness, the same population, a
       \* different one ...): without random state every result equals what a fresh operator returns for that
       \* input; with a seed, what a second instance with the same seed returns along the same call sequence
       HistoryIndependent |-> ev.rngfree => \A i \in 1..Len(ev.calls) : ev.calls[i].out = ev.calls[i].ref,
       SequenceDeterministic |-> ~ev.rngfree => \A i \in 1..Len(ev.calls) : ev.calls[i].out = ev.calls[i].ref,
       Exact |-> (ev.det /\ (sel \/ ex) /\ ev.expr.op # "opaque" /\ Regular(ev.expr, InIds(ev), FitVal(ev)))
                    => OutIds(ev) \in EvalSet(ev.expr, InIds(ev), FitVal(ev)),
       MemberOrFresh |-> ex => \A i \in 1..Len(ev.out) : ev.out[i].id > 0 \/ GoodDNA(sp, ev.out[i]) ]

Failing(sp, ev) == LET c == Clauses(sp, ev) IN { n \in DOMAIN c : ~c[n] }
Accepted(sp, ev) == Failing(sp, ev) = {}

Init == tid \in 1..Len(Traces) /\ l = 1
Step == /\ l <= Len(Ev(tid))            \* consume one event; its verdict is recorded in the trace's register
        /\ l' = l + 1
        /\ UNCHANGED tid
Next == Step
Spec == Init /\ [][Next]_vars

\* Verdicts are total: register t collects <<event index, failing clauses>> of every rejected event of
\* trace t, register Len(Traces) + t the number of events judged.
NT == Len(Traces)
Reg == IF l = 1 THEN TRUE
       ELSE LET f == Failing(SpecT(tid), Ev(tid)[l - 1]) IN
            /\ TLCSet(NT + tid, IF TLCGet(NT + tid) < l - 1 THEN l - 1 ELSE TLCGet(NT + tid))
            /\ IF f = {} THEN TRUE ELSE TLCSet(tid, TLCGet(tid) \cup {<<l - 1, f>>})
Post == \A t \in 1..NT :
          /\ IF TLCGet(NT + t) = Len(Ev(t)) THEN TRUE ELSE PrintT(<<"INCOMPLETE", Traces[t].id, TLCGet(NT + t)>>)
          /\ IF TLCGet(t) = {} THEN TRUE ELSE PrintT(<<"REJECT", Traces[t].id, TLCGet(t)>>)
ASSUME \A t \in 1..NT : TLCSet(t, {}) /\ TLCSet(NT + t, 0)
=============================================================================
