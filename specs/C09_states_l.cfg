SPECIFICATION Spec
CONSTANTS
  MaxNodes = 4
  Keys = {1}
  Leafs = {101}
  Shapes = {200}
  MaxLen = 3
  Acts = {"list"}
  Mirror = FALSE
  MaxLevel = 4
  InitKinds <- IK_List
  SimK = 0
CONSTRAINT LevelBound
VIEW view
INVARIANT TreeOK
