------------------------------ MODULE ValueSpec ------------------------------
(***************************************************************************)
(* The value-spec vocabulary of pg.typing as a finite algebra.             *)
(*                                                                         *)
(* A *value* is a record [t, a, xs]:  t is the Python type class, a an     *)
(* atom code, xs the children (dict: sequence of <<key, value>> sorted by  *)
(* key).  A *spec* is a record [t, lo, hi, non, vals, elems, fields, dflt, *)
(* frz]: the family, the numeric range or size bounds (NONE = unbounded),  *)
(* None-ability, enum candidates (or, for Str, the atoms matched by its    *)
(* regular expression), element specs, dict fields <<key, spec>> (key 0 =  *)
(* dynamic string key), the default (VMissing = none) and frozen-ness.     *)
(*                                                                         *)
(* Acc(s, v) in {"yes", "no", "dc"} is the reference acceptance relation   *)
(* of `s.apply(v)` (allow_partial = False); "dc" (don't care) marks the    *)
(* cells the documentation leaves to Python's cross-type equality (bool    *)
(* under Int/Float/Enum/frozen, int under Float).  App(s, v) is the value  *)
(* apply returns on accepted cells, RefDefault(s) the default a spec ends  *)
(* up with, WhyNot(s, v) the first reason for a rejection (used only to    *)
(* label findings).                                                        *)
(*                                                                         *)
(* The module has no variables: it is EXTENDed by ValueSpecExport (design- *)
(* level laws on the reference + JSON export of the universe),             *)
(* ValueSpecLaws (the same laws evaluated by TLC on the relations observed *)
(* on the real pg.typing code) and TypedTree (C03).                        *)
(***************************************************************************)
EXTENDS Integers, Sequences, FiniteSets, TLC, SequencesExt

NONE == 9999       \* "no bound"

---------------------------------------------------------------------------
(* Values *)
V(t, a, xs) == [t |-> t, a |-> a, xs |-> xs]
VNone == V("none", 0, <<>>)
VMissing == V("missing", 0, <<>>)            \* pg.MISSING_VALUE
IntV(n) == V("int", n, <<>>)
FloatV(n) == V("float", n, <<>>)             \* n = tenths: FloatV(5) is 0.5
StrV(n) == V("str", n, <<>>)                 \* 1 = 'foo', 2 = 'bar'
BoolV(b) == V("bool", b, <<>>)               \* 1 = True, 0 = False
ListV(xs) == V("list", 0, xs)
TupleV(xs) == V("tuple", 0, xs)
DictV(kvs) == V("dict", 0, kvs)
ObjV(c) == V("obj", c, <<>>)                 \* instance of test class c; class 2 is a subclass of class 1, 3 is unrelated

---------------------------------------------------------------------------
(* Specs *)
S(t, lo, hi, non, vals, elems, fields) ==
  [t |-> t, lo |-> lo, hi |-> hi, non |-> non, vals |-> vals, elems |-> elems, fields |-> fields,
   dflt |-> VMissing, frz |-> FALSE]
IntS(lo, hi, non) == S("Int", lo, hi, non, <<>>, <<>>, <<>>)
FloatS(lo, hi, non) == S("Float", lo, hi, non, <<>>, <<>>, <<>>)       \* bounds in tenths
BoolS == S("Bool", NONE, NONE, FALSE, <<>>, <<>>, <<>>)
StrS == S("Str", NONE, NONE, FALSE, <<>>, <<>>, <<>>)
StrRe(vals) == S("Str", NONE, NONE, FALSE, vals, <<>>, <<>>)          \* regex matching exactly the atoms in vals
EnumS(vals) == [S("Enum", NONE, NONE, FALSE, vals, <<>>, <<>>) EXCEPT !.dflt = vals[1]]
ListS(e, lo, hi) == S("List", lo, hi, FALSE, <<>>, <<e>>, <<>>)
TupleFix(es) == S("TupleFix", NONE, NONE, FALSE, <<>>, es, <<>>)
TupleVar(e, lo, hi) == S("TupleVar", lo, hi, FALSE, <<>>, <<e>>, <<>>)
DictS(fields) == S("Dict", NONE, NONE, FALSE, <<>>, <<>>, fields)      \* <<>> = no schema
DictDyn(e) == S("DictDyn", NONE, NONE, FALSE, <<>>, <<>>, << <<0, e>> >>)
ObjS(c) == S("Object", c, NONE, FALSE, <<>>, <<>>, <<>>)
UnionS(cs) == S("Union", NONE, NONE, FALSE, <<>>, cs, <<>>)
AnyS == S("Any", NONE, NONE, FALSE, <<>>, <<>>, <<>>)
NonOf(s) == [s EXCEPT !.non = TRUE]
Dflt(s, v) == [s EXCEPT !.dflt = v]
Frz(s, v) == [s EXCEPT !.dflt = v, !.frz = TRUE]

IsSub(c, base) == c = base \/ (base = 1 /\ c = 2)

---------------------------------------------------------------------------
(* Reference semantics *)
InRange(n, lo, hi) == (lo = NONE \/ n >= lo) /\ (hi = NONE \/ n <= hi)
And3(xs) == IF \E i \in 1..Len(xs) : xs[i] = "no" THEN "no"
            ELSE IF \E i \in 1..Len(xs) : xs[i] = "dc" THEN "dc" ELSE "yes"
\* values of different Python types that Python's == equates (True == 1 == 1.0): acceptance of one where the
\* other is expected is an artefact of Python equality, not of the algebra -- a don't-care
IsNum(v) == v.t \in {"bool", "int", "float"}
NumVal(v) == IF v.t = "float" THEN v.a ELSE 10 * v.a            \* in tenths
CrossEq(v, d) == v.t # d.t /\ IsNum(v) /\ IsNum(d) /\ NumVal(v) = NumVal(d)

RECURSIVE RefDefault(_)
\* the default value a spec ends up with (VMissing = none, or a partial one that stands for "missing")
RefDefault(s) ==
  IF s.dflt # VMissing THEN s.dflt
  ELSE IF s.non THEN VNone
  ELSE IF s.t = "Dict" /\ s.fields # <<>> /\ \A j \in 1..Len(s.fields) : s.fields[j][1] > 0 => RefDefault(s.fields[j][2]) # VMissing
       THEN LET ks == SetToSortSeq({k \in {s.fields[j][1] : j \in 1..Len(s.fields)} : k > 0}, LAMBDA x, y : x < y)     \* constant keys only
            IN DictV([n \in 1..Len(ks) |-> <<ks[n], RefDefault(s.fields[CHOOSE j \in 1..Len(s.fields) : s.fields[j][1] = ks[n]][2])>>])
  ELSE VMissing
HasDefault(s) == RefDefault(s) # VMissing

FieldIdx(s, k) == IF \E j \in 1..Len(s.fields) : s.fields[j][1] = k
                  THEN CHOOSE j \in 1..Len(s.fields) : s.fields[j][1] = k ELSE 0
\* A "Dict" spec may declare constant keys and one dynamic key field (key 0, a StrKey with the regular
\* expression '^d'): keys 5..8 are the strings that match it ('d5'..'d8'), every other key is named 'k<n>'.
IsDynKey(k) == k \in 5..8
\* A second kind of dynamic key field, key -1, is the unconstrained StrKey(): it matches every key that is not
\* a declared constant key (a spec declares at most one dynamic field).
MatchIdx(s, k) == IF k > 0 /\ FieldIdx(s, k) # 0 THEN FieldIdx(s, k)
                  ELSE IF k > 0 /\ FieldIdx(s, -1) # 0 THEN FieldIdx(s, -1)
                  ELSE IF IsDynKey(k) THEN FieldIdx(s, 0) ELSE 0
HasKey(v, k) == \E i \in 1..Len(v.xs) : v.xs[i][1] = k
ValAt(v, k) == v.xs[CHOOSE i \in 1..Len(v.xs) : v.xs[i][1] = k][2]

RECURSIVE Acc(_,_)
Acc(s, v) ==
  IF s.frz THEN (IF v = VMissing \/ v = s.dflt THEN "yes" ELSE IF CrossEq(v, s.dflt) THEN "dc" ELSE "no")
  ELSE IF v = VMissing THEN "no"
  ELSE IF v = VNone THEN (IF s.non \/ s.t = "Any" \/ (s.t = "Enum" /\ \E i \in 1..Len(s.vals) : s.vals[i] = VNone)
                          THEN "yes" ELSE "no")
  ELSE CASE s.t = "Any" -> "yes"
    [] s.t = "Int" -> IF v.t = "int" THEN (IF InRange(v.a, s.lo, s.hi) THEN "yes" ELSE "no")
                      ELSE IF v.t = "bool" THEN "dc" ELSE "no"
    [] s.t = "Float" -> IF v.t = "float" THEN (IF InRange(v.a, s.lo, s.hi) THEN "yes" ELSE "no")
                        ELSE IF v.t \in {"int", "bool"} THEN "dc" ELSE "no"
    [] s.t = "Bool" -> IF v.t = "bool" THEN "yes" ELSE "no"
    [] s.t = "Str" -> IF v.t # "str" THEN "no"
                      ELSE IF s.vals = <<>> \/ \E i \in 1..Len(s.vals) : s.vals[i] = v THEN "yes" ELSE "no"
    [] s.t = "Enum" -> IF \E i \in 1..Len(s.vals) : s.vals[i] = v THEN "yes"
                       ELSE IF \E i \in 1..Len(s.vals) : CrossEq(v, s.vals[i]) THEN "dc" ELSE "no"
    [] s.t = "List" -> IF v.t # "list" THEN "no"
                       ELSE IF ~InRange(Len(v.xs), s.lo, s.hi) THEN "no"
                       ELSE And3([i \in 1..Len(v.xs) |-> Acc(s.elems[1], v.xs[i])])
    [] s.t = "TupleFix" -> IF v.t # "tuple" \/ Len(v.xs) # Len(s.elems) THEN "no"
                           ELSE And3([i \in 1..Len(v.xs) |-> Acc(s.elems[i], v.xs[i])])
    [] s.t = "TupleVar" -> IF v.t # "tuple" \/ ~InRange(Len(v.xs), s.lo, s.hi) THEN "no"
                           ELSE And3([i \in 1..Len(v.xs) |-> Acc(s.elems[1], v.xs[i])])
    [] s.t = "Dict" ->
         IF v.t # "dict" THEN "no"
         ELSE IF s.fields = <<>> THEN "yes"
         ELSE IF \E i \in 1..Len(v.xs) : MatchIdx(s, v.xs[i][1]) = 0 THEN "no"                       \* undeclared key
         ELSE And3([j \in 1..Len(s.fields) |->
                      IF s.fields[j][1] <= 0                                                           \* the dynamic key field
                      THEN And3([i \in 1..Len(v.xs) |-> IF MatchIdx(s, v.xs[i][1]) = j THEN Acc(s.fields[j][2], v.xs[i][2]) ELSE "yes"])
                      ELSE IF HasKey(v, s.fields[j][1]) THEN Acc(s.fields[j][2], ValAt(v, s.fields[j][1]))
                      ELSE IF HasDefault(s.fields[j][2])                                              \* absent: default applied
                           THEN Acc(s.fields[j][2], RefDefault(s.fields[j][2])) ELSE "no"])            \* required missing
    [] s.t = "DictDyn" -> IF v.t # "dict" THEN "no"
                          ELSE And3([i \in 1..Len(v.xs) |-> Acc(s.fields[1][2], v.xs[i][2])])
    [] s.t = "Object" -> IF v.t = "obj" /\ IsSub(v.a, s.lo) THEN "yes" ELSE "no"
    [] s.t = "Union" -> IF \E i \in 1..Len(s.elems) : Acc(s.elems[i], v) = "yes" THEN "yes"
                        ELSE IF \E i \in 1..Len(s.elems) : Acc(s.elems[i], v) = "dc" THEN "dc" ELSE "no"

SortedKeys(K) == SetToSortSeq(K, LAMBDA x, y : x < y)

RECURSIVE App(_,_)
\* what apply returns on a cell with Acc = "yes"
App(s, v) ==
  IF s.frz THEN s.dflt
  ELSE IF v = VNone THEN VNone
  ELSE CASE s.t \in {"List", "TupleVar"} -> V(v.t, 0, [i \in 1..Len(v.xs) |-> App(s.elems[1], v.xs[i])])
    [] s.t = "TupleFix" -> V(v.t, 0, [i \in 1..Len(v.xs) |-> App(s.elems[i], v.xs[i])])
    [] s.t = "Dict" /\ s.fields # <<>> ->
         LET ks == SortedKeys({k \in {s.fields[j][1] : j \in 1..Len(s.fields)} : k > 0} \cup {v.xs[i][1] : i \in 1..Len(v.xs)}) IN
         DictV([n \in 1..Len(ks) |->
                 LET f == s.fields[MatchIdx(s, ks[n])][2] IN
                 <<ks[n], IF HasKey(v, ks[n]) THEN App(f, ValAt(v, ks[n])) ELSE App(f, RefDefault(f))>>])
    [] s.t = "DictDyn" -> DictV([i \in 1..Len(v.xs) |-> <<v.xs[i][1], App(s.fields[1][2], v.xs[i][2])>>])
    [] s.t = "Union" -> App(s.elems[CHOOSE i \in 1..Len(s.elems) : Acc(s.elems[i], v) = "yes"], v)
    [] OTHER -> v

\* does v have the Python type spec s expects (before any constraint is looked at)
RECURSIVE TypeMatch(_,_)
TypeMatch(s, v) ==
  CASE s.t = "Int" -> v.t \in {"int", "bool"}
    [] s.t = "Float" -> v.t \in {"float", "int", "bool"}
    [] s.t = "Bool" -> v.t = "bool"
    [] s.t = "Str" -> v.t = "str"
    [] s.t = "List" -> v.t = "list"
    [] s.t \in {"TupleFix", "TupleVar"} -> v.t = "tuple"
    [] s.t \in {"Dict", "DictDyn"} -> v.t = "dict"
    [] s.t = "Object" -> v.t = "obj" /\ IsSub(v.a, s.lo)
    [] s.t = "Union" -> \E i \in 1..Len(s.elems) : TypeMatch(s.elems[i], v)
    [] OTHER -> TRUE

RECURSIVE WhyNot(_,_)
\* The first reason why s rejects v, as a path <<family, tag, family, tag, ...>> from the spec down to the
\* innermost rejecting constraint.  It labels findings; no law depends on it.
WhyNot(s, v) ==
  IF s.frz THEN <<s.t, "frozen">>
  ELSE IF v = VMissing THEN <<s.t, "missing">>
  ELSE IF v = VNone THEN <<s.t, "none">>
  ELSE IF ~TypeMatch(s, v) THEN <<s.t, "type">>
  ELSE CASE s.t \in {"Int", "Float"} -> IF s.lo # NONE /\ NumVal(v) < NumVal([t |-> (IF s.t = "Int" THEN "int" ELSE "float"), a |-> s.lo])
                                        THEN <<s.t, "min_value">> ELSE <<s.t, "max_value">>
    [] s.t = "Str" -> <<s.t, "regex">>
    [] s.t = "Enum" -> <<s.t, "enum">>
    [] s.t \in {"List", "TupleVar"} ->
              IF s.lo # NONE /\ Len(v.xs) < s.lo THEN <<s.t, "min_size">>
              ELSE IF s.hi # NONE /\ Len(v.xs) > s.hi THEN <<s.t, "max_size">>
              ELSE <<s.t, "elem">> \o WhyNot(s.elems[1], v.xs[CHOOSE i \in 1..Len(v.xs) : Acc(s.elems[1], v.xs[i]) # "yes"])
    [] s.t = "TupleFix" ->
              IF Len(v.xs) # Len(s.elems) THEN <<s.t, "length">>
              ELSE LET i == CHOOSE i \in 1..Len(v.xs) : Acc(s.elems[i], v.xs[i]) # "yes" IN <<s.t, "elem">> \o WhyNot(s.elems[i], v.xs[i])
    [] s.t = "Dict" ->
              IF \E i \in 1..Len(v.xs) : MatchIdx(s, v.xs[i][1]) = 0 THEN <<s.t, "undeclared_key">>
              ELSE IF \E j \in 1..Len(s.fields) : s.fields[j][1] > 0 /\ ~HasKey(v, s.fields[j][1]) /\ ~HasDefault(s.fields[j][2]) THEN <<s.t, "required_key">>
              ELSE IF \E i \in 1..Len(v.xs) : Acc(s.fields[MatchIdx(s, v.xs[i][1])][2], v.xs[i][2]) # "yes"
                   THEN LET i == CHOOSE i \in 1..Len(v.xs) : Acc(s.fields[MatchIdx(s, v.xs[i][1])][2], v.xs[i][2]) # "yes"
                        IN <<s.t, "field">> \o WhyNot(s.fields[MatchIdx(s, v.xs[i][1])][2], v.xs[i][2])
                   ELSE <<s.t, "default_of_absent_field">>
    [] s.t = "DictDyn" -> LET i == CHOOSE i \in 1..Len(v.xs) : Acc(s.fields[1][2], v.xs[i][2]) # "yes"
                          IN <<s.t, "field">> \o WhyNot(s.fields[1][2], v.xs[i][2])
    [] s.t = "Union" -> LET i == CHOOSE i \in 1..Len(s.elems) : TypeMatch(s.elems[i], v) IN <<s.t, "candidate">> \o WhyNot(s.elems[i], v)
    [] OTHER -> <<s.t, "other">>

RECURSIVE HasRegex(_)
HasRegex(s) == (s.t = "Str" /\ s.vals # <<>>)
               \/ (\E i \in 1..Len(s.elems) : HasRegex(s.elems[i]))
               \/ (\E j \in 1..Len(s.fields) : HasRegex(s.fields[j][2]))

DeclaredKeys(s) == {s.fields[j][1] : j \in 1..Len(s.fields)}
ConstKeys(s) == {k \in DeclaredKeys(s) : k > 0}
HasDyn(s) == \E k \in DeclaredKeys(s) : k <= 0
IsDictFam(s) == s.t \in {"Dict", "DictDyn"}
\* "for the fields they share": projection of a dict value accepted by the extension of child c over base b onto
\* the fields b declares -- b's constant keys, and (when b has a dynamic key field) every key that is not one of
\* the child's own constant keys
ProjShared(v, b, c) ==
  IF v.t = "dict" /\ IsDictFam(b) /\ IsDictFam(c) /\ b.fields # <<>>
  THEN DictV(SelectSeq(v.xs, LAMBDA kv : kv[1] \in ConstKeys(b) \/ ((b.t = "DictDyn" \/ MatchIdx(b, kv[1]) # 0) /\ kv[1] \notin ConstKeys(c))))
  ELSE v

---------------------------------------------------------------------------
(* Universes (chosen by the constant U of the extending module's config)   *)

RangeOK(lo, hi) == lo = NONE \/ hi = NONE \/ lo <= hi
I0 == IntS(NONE, NONE, FALSE)
I01 == IntS(0, 1, FALSE)
IntAtoms == {IntV(n) : n \in {-1, 0, 1, 2, 3}}

\* ---- quick: ~110 specs x ~60 values
IntSeqs(k) == UNION {[1..n -> {IntV(0), IntV(2)}] : n \in 0..k}
ValuesQ ==
  {VNone, VMissing, BoolV(1), BoolV(0), FloatV(5), FloatV(25), FloatV(-5), FloatV(-15), StrV(1), StrV(2)} \cup IntAtoms \cup {IntV(-2)}
  \cup {ListV(xs) : xs \in IntSeqs(3)}
  \cup {ListV(<<StrV(1)>>), ListV(<<ListV(<<IntV(0)>>)>>), ListV(<<ListV(<<>>)>>),
        ListV(<<ListV(<<IntV(0)>>), ListV(<<IntV(2), IntV(2), IntV(0)>>)>>)}
  \cup {TupleV(xs) : xs \in IntSeqs(2)} \cup {TupleV(<<IntV(1), StrV(1)>>), TupleV(<<IntV(0), IntV(0), IntV(0)>>)}
  \cup {DictV(<<>>), DictV(<< <<1, IntV(0)>> >>), DictV(<< <<1, IntV(3)>> >>),
        DictV(<< <<1, IntV(0)>>, <<2, IntV(2)>> >>), DictV(<< <<2, IntV(1)>> >>),
        DictV(<< <<9, IntV(1)>> >>), DictV(<< <<1, StrV(1)>> >>), DictV(<< <<1, IntV(0)>>, <<9, IntV(1)>> >>),
        DictV(<< <<1, IntV(0)>>, <<2, IntV(1)>> >>), DictV(<< <<1, IntV(3)>>, <<2, IntV(1)>> >>),
        DictV(<< <<1, ListV(<<IntV(0)>>)>> >>), DictV(<< <<1, VNone>> >>),
        DictV(<< <<2, StrV(1)>> >>), DictV(<< <<7, IntV(0)>> >>), DictV(<< <<2, StrV(1)>>, <<9, IntV(1)>> >>),
        DictV(<< <<2, IntV(1)>>, <<7, IntV(0)>> >>), DictV(<< <<9, StrV(1)>> >>)}
  \cup {ObjV(1), ObjV(2), ObjV(3)}

\* Dict specs mixing constant keys with a dynamic key field (0: StrKey('^d'), -1: StrKey()), for both sides of
\* is_compatible / extend
MixedDicts ==
  {DictS(<< <<-1, I0>> >>), DictS(<< <<-1, StrS>> >>), DictS(<< <<0, I0>> >>),
   DictS(<< <<2, StrS>>, <<-1, I0>> >>), DictS(<< <<2, IntS(0, NONE, FALSE)>>, <<-1, I0>> >>), DictS(<< <<2, I0>>, <<-1, I0>> >>),
   DictS(<< <<1, Dflt(I0, IntV(1))>>, <<-1, StrS>> >>), DictS(<< <<2, I0>>, <<0, I0>> >>), DictS(<< <<2, StrS>>, <<0, I0>> >>),
   DictS(<< <<1, I0>>, <<2, Dflt(I0, IntV(1))>>, <<-1, I0>> >>)}
\* modifier combinations: noneable /\ frozen, noneable /\ default (non-None), on several families
ModCombos ==
  {Frz(NonOf(I0), IntV(1)), Dflt(NonOf(I0), IntV(1)), Frz(NonOf(IntS(0, 2, FALSE)), IntV(2)), Frz(NonOf(StrS), StrV(1)),
   Dflt(NonOf(StrS), StrV(2)), Frz(NonOf(BoolS), BoolV(1)), Frz(NonOf(ListS(I0, 0, NONE)), ListV(<<IntV(0)>>)),
   Dflt(NonOf(ListS(I0, 0, 2)), ListV(<<>>)), Frz(EnumS(<<VNone, IntV(1)>>), IntV(1)), Frz(NonOf(FloatS(NONE, NONE, FALSE)), FloatV(5)),
   DictS(<< <<1, Frz(NonOf(I0), IntV(1))>>, <<2, I0>> >>), DictS(<< <<1, Dflt(NonOf(I0), IntV(1))>> >>), Frz(NonOf(ObjS(1)), ObjV(1))}

\* specs of one family frozen to DIFFERENT permanent values (and to the same value), for both sides of extend / is_compatible
FrozenPairs ==
  {Frz(I0, IntV(1)), Frz(I0, IntV(2)), Frz(IntS(0, 2, FALSE), IntV(2)), Frz(StrS, StrV(1)), Frz(StrS, StrV(2)),
   Frz(BoolS, BoolV(1)), Frz(BoolS, BoolV(0)), Frz(FloatS(NONE, NONE, FALSE), FloatV(5)), Frz(FloatS(NONE, NONE, FALSE), FloatV(25)),
   Frz(EnumS(<<IntV(1), IntV(2)>>), IntV(1)), Frz(EnumS(<<IntV(1), IntV(2)>>), IntV(2)),
   Frz(ListS(I0, 0, NONE), ListV(<<IntV(0)>>)), Frz(ListS(I0, 0, NONE), ListV(<<IntV(2)>>)),
   Frz(TupleFix(<<I0>>), TupleV(<<IntV(0)>>)), Frz(TupleFix(<<I0>>), TupleV(<<IntV(2)>>)),
   DictS(<< <<1, Frz(I0, IntV(1))>> >>), DictS(<< <<1, Frz(I0, IntV(2))>> >>),
   DictS(<< <<1, Frz(I0, IntV(1))>>, <<2, I0>> >>), DictS(<< <<1, Frz(I0, IntV(2))>>, <<2, I0>> >>)}

Sizes3 == {<<0, NONE>>, <<1, NONE>>, <<2, NONE>>, <<0, 0>>, <<0, 1>>, <<1, 1>>, <<0, 2>>, <<1, 2>>, <<2, 2>>}   \* incl. size = 0
SpecsQ ==
  \* bounds are drawn from {none, negative, zero, positive} for min and for max
  {s \in {IntS(lo, hi, non) : lo \in {NONE, -1, 0, 1}, hi \in {NONE, -1, 0, 1, 2}, non \in BOOLEAN} : RangeOK(s.lo, s.hi)}
  \cup {Dflt(I0, IntV(1)), Dflt(I0, IntV(3)), Dflt(IntS(0, 2, FALSE), IntV(1)), Frz(I0, IntV(1)), Frz(IntS(0, NONE, FALSE), IntV(2))}
  \cup {s \in {FloatS(lo, hi, non) : lo \in {NONE, -10, 0}, hi \in {NONE, -5, 0, 10}, non \in BOOLEAN} : RangeOK(s.lo, s.hi)}
  \cup {Dflt(FloatS(NONE, NONE, FALSE), FloatV(5))}
  \cup {BoolS, NonOf(BoolS), Dflt(BoolS, BoolV(1)), StrS, NonOf(StrS), Dflt(StrS, StrV(1)), StrRe(<<StrV(1)>>)}
  \cup {EnumS(<<IntV(1)>>), EnumS(<<IntV(1), IntV(2)>>), EnumS(<<IntV(2), IntV(1), IntV(3)>>),
        EnumS(<<StrV(1), IntV(1)>>), EnumS(<<VNone, IntV(1)>>), Frz(EnumS(<<IntV(1), IntV(2)>>), IntV(1))}
  \cup {ListS(e, sz[1], sz[2]) : e \in {I0, I01, StrS}, sz \in Sizes3}
  \cup {ListS(ListS(I0, 0, 2), 0, NONE), ListS(ListS(I0, 0, NONE), 0, 2), NonOf(ListS(I0, 0, NONE)),
        Dflt(ListS(I0, 0, NONE), ListV(<<IntV(0)>>))}
  \cup {TupleFix(<<I0>>), TupleFix(<<I01>>), TupleFix(<<I0, I0>>), TupleFix(<<I01, I0>>), TupleFix(<<I0, StrS>>)}
  \cup {TupleVar(e, sz[1], sz[2]) : e \in {I0, I01}, sz \in {<<0, NONE>>, <<1, NONE>>, <<2, NONE>>, <<0, 0>>, <<0, 2>>, <<1, 2>>, <<2, 2>>, <<0, 1>>}}
  \cup {DictS(<<>>), DictS(<< <<1, I0>> >>), DictS(<< <<1, I01>> >>),
        DictS(<< <<1, I0>>, <<2, Dflt(I0, IntV(1))>> >>), DictS(<< <<1, I01>>, <<2, Dflt(I0, IntV(1))>> >>),
        DictS(<< <<2, I0>> >>), DictDyn(I0), DictDyn(I01), DictS(<< <<1, ListS(I0, 0, 2)>> >>),
        DictS(<< <<1, NonOf(I0)>> >>), DictS(<< <<1, I0>>, <<9, I0>> >>),
        DictS(<< <<1, Dflt(I0, IntV(0))>>, <<2, Dflt(I0, IntV(1))>> >>)}
  \cup {ObjS(1), ObjS(2), ObjS(3), NonOf(ObjS(1))}
  \cup {UnionS(<<I0, StrS>>), UnionS(<<I01, StrS>>), UnionS(<<I0, ListS(I0, 0, NONE)>>), UnionS(<<StrS, ObjS(1)>>),
        NonOf(UnionS(<<I0, StrS>>)), UnionS(<<FloatS(NONE, NONE, FALSE), StrS>>)}
  \cup {AnyS}
  \cup MixedDicts \cup ModCombos \cup FrozenPairs

\* ---- thorough chunks.  Each chunk is a universe of its own (all pairs inside a chunk are checked).
Bounds4 == {NONE, -1, 0, 1, 2, 3}
IntRanges == {IntS(lo, hi, non) : lo \in Bounds4, hi \in Bounds4, non \in BOOLEAN}
SpecsNum ==
  {s \in IntRanges : RangeOK(s.lo, s.hi)}
  \cup {Dflt(IntS(lo, hi, FALSE), IntV(d)) : lo \in {NONE, 0}, hi \in {NONE, 2}, d \in {0, 1, 2}}
  \cup {Frz(IntS(lo, hi, FALSE), IntV(d)) : lo \in {NONE, 0}, hi \in {NONE, 2}, d \in {0, 2}}
  \cup {s \in {FloatS(lo, hi, non) : lo \in {NONE, -10, 0, 10}, hi \in {NONE, -5, 0, 10, 30}, non \in BOOLEAN} : RangeOK(s.lo, s.hi)}
  \cup {Dflt(FloatS(NONE, NONE, FALSE), FloatV(5)), Frz(FloatS(NONE, NONE, FALSE), FloatV(5)), Dflt(FloatS(0, 10, FALSE), FloatV(5))}
  \cup {BoolS, NonOf(BoolS), Dflt(BoolS, BoolV(1)), Frz(BoolS, BoolV(0)), StrS, NonOf(StrS), Dflt(StrS, StrV(1)),
        Frz(StrS, StrV(2)), StrRe(<<StrV(1)>>), StrRe(<<StrV(2)>>)}
  \cup {EnumS(vs) : vs \in {<<IntV(1)>>, <<IntV(2)>>, <<IntV(1), IntV(2)>>, <<IntV(2), IntV(1)>>, <<IntV(0), IntV(1), IntV(2)>>,
                            <<IntV(2), IntV(1), IntV(3)>>, <<StrV(1)>>, <<StrV(1), StrV(2)>>, <<StrV(1), IntV(1)>>,
                            <<VNone, IntV(1)>>, <<VNone, StrV(1), IntV(2)>>, <<FloatV(5)>>, <<FloatV(5), FloatV(25)>>, <<IntV(-1), IntV(3)>>}}
  \cup {Frz(EnumS(<<IntV(1), IntV(2)>>), IntV(1)), Frz(EnumS(<<IntV(1), IntV(2)>>), IntV(2)), Frz(EnumS(<<StrV(1), StrV(2)>>), StrV(2))}
  \cup {UnionS(<<a, b>>) : a \in {I0, I01, IntS(0, NONE, FALSE), IntS(NONE, 2, FALSE)}, b \in {StrS, FloatS(NONE, NONE, FALSE), ObjS(1)}}
  \cup {NonOf(UnionS(<<I0, StrS>>)), UnionS(<<I0, StrS, ObjS(2)>>), UnionS(<<StrS, I0>>), AnyS, Dflt(AnyS, IntV(1)),
        ObjS(1), ObjS(2), ObjS(3), NonOf(ObjS(1)), NonOf(ObjS(2))}
  \cup ModCombos \cup FrozenPairs
ValuesNum ==
  {VNone, VMissing, BoolV(1), BoolV(0), FloatV(5), FloatV(25), FloatV(-5), FloatV(15), StrV(1), StrV(2)}
  \cup {IntV(n) : n \in -2..4} \cup {ObjV(1), ObjV(2), ObjV(3)}
  \cup {ListV(<<>>), ListV(<<IntV(0)>>), TupleV(<<>>), TupleV(<<IntV(1)>>), DictV(<<>>), DictV(<< <<1, IntV(0)>> >>)}

Sizes4 == {sz \in {NONE, 0, 1, 2, 3} \X {NONE, 0, 1, 2, 3} : sz[1] # NONE /\ RangeOK(sz[1], sz[2])}
ElemsSeq == {I0, I01, IntS(0, NONE, FALSE), NonOf(I0), StrS, EnumS(<<IntV(0), IntV(2)>>)}
SpecsSeq ==
  {ListS(e, sz[1], sz[2]) : e \in ElemsSeq, sz \in Sizes4}
  \cup {NonOf(ListS(e, 0, NONE)) : e \in {I0, I01}}
  \cup {Dflt(ListS(I0, lo, NONE), ListV(<<IntV(0)>>)) : lo \in {0, 1}}
  \cup {Frz(ListS(I0, 0, NONE), ListV(<<IntV(0)>>))}
  \cup {ListS(ListS(e, sz[1], sz[2]), 0, hi) : e \in {I0, I01}, sz \in {<<0, NONE>>, <<1, NONE>>, <<0, 1>>, <<0, 2>>}, hi \in {NONE, 1}}
  \cup {TupleVar(e, sz[1], sz[2]) : e \in {I0, I01, StrS}, sz \in Sizes4}
  \cup {TupleFix(<<a>>) : a \in {I0, I01, StrS, NonOf(I0)}}
  \cup {TupleFix(<<a, b>>) : a \in {I0, I01, StrS}, b \in {I0, I01, StrS}}
  \cup {TupleFix(<<I0, I0, I0>>), TupleFix(<<I01, I0, I01>>), NonOf(TupleFix(<<I0>>)), NonOf(TupleVar(I0, 0, NONE)),
        UnionS(<<ListS(I0, 0, NONE), TupleVar(I0, 0, NONE)>>), UnionS(<<ListS(I01, 1, 2), StrS>>), AnyS, I0}
ValuesSeq ==
  {VNone, VMissing, IntV(0), StrV(1), BoolV(1)}
  \cup {ListV(xs) : xs \in UNION {[1..n -> {IntV(0), IntV(2)}] : n \in 0..4}}
  \cup {TupleV(xs) : xs \in UNION {[1..n -> {IntV(0), IntV(2)}] : n \in 0..4}}
  \cup {ListV(<<StrV(1)>>), ListV(<<StrV(1), StrV(2)>>), ListV(<<IntV(0), StrV(1)>>), ListV(<<VNone>>), ListV(<<IntV(-1)>>),
        ListV(<<IntV(0), VNone>>), TupleV(<<StrV(1)>>), TupleV(<<StrV(1), IntV(0)>>), TupleV(<<IntV(0), StrV(1)>>),
        TupleV(<<VNone>>), TupleV(<<StrV(1), StrV(2)>>), TupleV(<<IntV(-1)>>),
        ListV(<<ListV(<<>>)>>), ListV(<<ListV(<<IntV(0)>>)>>), ListV(<<ListV(<<IntV(0)>>), ListV(<<IntV(2), IntV(0)>>)>>),
        ListV(<<ListV(<<IntV(2)>>)>>), ListV(<<ListV(<<IntV(0), IntV(0), IntV(0)>>)>>), ListV(<<ListV(<<>>), ListV(<<>>)>>)}

FieldSpecs == {I0, I01, Dflt(I0, IntV(1)), NonOf(I0), StrS}
SpecsMap ==
  {DictS(<<>>), NonOf(DictS(<<>>))}
  \cup {DictS(<< <<1, f>> >>) : f \in FieldSpecs \cup {ListS(I0, 0, 2), ListS(I0, 1, NONE), Frz(I0, IntV(1))}}
  \cup {DictS(<< <<1, f>>, <<2, g>> >>) : f \in FieldSpecs, g \in FieldSpecs}
  \cup {DictS(<< <<2, f>> >>) : f \in {I0, Dflt(I0, IntV(1))}}
  \cup {DictS(<< <<1, f>>, <<9, g>> >>) : f \in {I0, I01}, g \in {I0, Dflt(I0, IntV(1))}}
  \cup {DictDyn(f) : f \in {I0, I01, StrS, NonOf(I0), ListS(I0, 0, 2)}}
  \cup {NonOf(DictS(<< <<1, I0>> >>)), NonOf(DictDyn(I0))}
  \cup {DictS(<< <<1, DictS(<< <<1, f>> >>)>> >>) : f \in {I0, I01, Dflt(I0, IntV(1))}}
  \cup {ListS(DictS(<< <<1, f>> >>), 0, NONE) : f \in {I0, I01, Dflt(I0, IntV(1))}}
  \cup {ObjS(1), ObjS(2), ObjS(3), NonOf(ObjS(1)), UnionS(<<DictS(<< <<1, I0>> >>), I0>>), UnionS(<<ObjS(1), StrS>>),
        UnionS(<<ObjS(2), ObjS(3)>>), UnionS(<<ObjS(1), ObjS(3)>>), AnyS, I0}
  \cup MixedDicts
  \cup {DictS(<< <<k, f>>, <<d, g>> >>) : k \in {1, 2}, f \in {I0, I01, StrS}, d \in {0, -1}, g \in {I0, I01, StrS}}
  \cup {DictS(<< <<d, g>> >>) : d \in {0, -1}, g \in {I01, NonOf(I0)}}
  \cup {DictS(<< <<1, Frz(NonOf(I0), IntV(1))>>, <<2, I0>> >>), DictS(<< <<1, Dflt(NonOf(I0), IntV(1))>> >>)}
DictAtoms == {IntV(0), IntV(1), IntV(3), StrV(1), VNone}
ValuesMap ==
  {VNone, VMissing, IntV(0), StrV(1), ObjV(1), ObjV(2), ObjV(3), ListV(<<>>), DictV(<<>>)}
  \cup {DictV(<< <<1, x>> >>) : x \in DictAtoms} \cup {DictV(<< <<2, x>> >>) : x \in DictAtoms}
  \cup {DictV(<< <<1, x>>, <<2, y>> >>) : x \in DictAtoms, y \in DictAtoms}
  \cup {DictV(<< <<9, IntV(1)>> >>), DictV(<< <<1, IntV(0)>>, <<9, IntV(1)>> >>), DictV(<< <<1, IntV(3)>>, <<9, IntV(1)>> >>),
        DictV(<< <<1, IntV(0)>>, <<2, IntV(1)>>, <<9, IntV(1)>> >>),
        DictV(<< <<1, ListV(<<>>)>> >>), DictV(<< <<1, ListV(<<IntV(0)>>)>> >>), DictV(<< <<1, ListV(<<IntV(0), IntV(0), IntV(0)>>)>> >>),
        DictV(<< <<1, DictV(<<>>)>> >>), DictV(<< <<1, DictV(<< <<1, IntV(0)>> >>)>> >>), DictV(<< <<1, DictV(<< <<1, IntV(3)>> >>)>> >>),
        DictV(<< <<1, DictV(<< <<2, IntV(0)>> >>)>> >>),
        ListV(<<DictV(<<>>)>>), ListV(<<DictV(<< <<1, IntV(0)>> >>)>>), ListV(<<DictV(<< <<1, IntV(3)>> >>), DictV(<< <<1, IntV(0)>> >>)>>),
        ListV(<<DictV(<< <<2, IntV(0)>> >>)>>),
        DictV(<< <<7, IntV(0)>> >>), DictV(<< <<7, StrV(1)>> >>), DictV(<< <<2, StrV(1)>>, <<9, IntV(1)>> >>),
        DictV(<< <<2, IntV(1)>>, <<7, IntV(0)>> >>), DictV(<< <<9, StrV(1)>> >>), DictV(<< <<1, IntV(0)>>, <<7, IntV(3)>> >>),
        DictV(<< <<2, IntV(3)>>, <<8, IntV(0)>> >>)}

CONSTANT U          \* "quick" | "num" | "seq" | "map"
Specs == CASE U = "quick" -> SpecsQ [] U = "num" -> SpecsNum [] U = "seq" -> SpecsSeq [] U = "map" -> SpecsMap
Values == CASE U = "quick" -> ValuesQ [] U = "num" -> ValuesNum [] U = "seq" -> ValuesSeq [] U = "map" -> ValuesMap
SpecSeq == SetToSeq(Specs)
ValSeq == SetToSeq(Values)
=============================================================================
