SPECIFICATION Spec
CONSTANTS
  IterUniverse <- U_validate
  MaxSize = 60
  AsCoded = FALSE
INVARIANT Complete
INVARIANT NoGap
