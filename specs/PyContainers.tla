---------------------------- MODULE PyContainers ----------------------------
(***************************************************************************)
(* Reference semantics of Python's list and dict, one operator per API     *)
(* call, over small universes; exported case by case so that the harness   *)
(* can run every call on a builtin container (validating this module) and  *)
(* on pg.List / pg.Dict (property C02).                                    *)
(* Values are ints.  A result is [k, ret, xs]: outcome class, returned     *)
(* value (int / sequence / boolean encoded as 0/1) and the new content.    *)
(***************************************************************************)
EXTENDS Integers, Sequences, FiniteSets, TLC, PySeq, Json, IOUtils, SequencesExt

CONSTANTS ListVals,     \* values lists are built from
          MaxListLen,
          Bounds,       \* slice bounds / indices tried (NONE = 9999 allowed for bounds)
          StepsC,       \* slice steps tried
          NewVals       \* values written by operations

\* cfg files cannot write negative numbers: the argument sets are named here
BoundsQuick == {NONE, -4, -1, 0, 1, 2, 4}
BoundsThorough == {NONE, -5, -4, -3, -2, -1, 0, 1, 2, 3, 4, 5}
StepsQuick == {NONE, -2, -1, 1, 2}
StepsThorough == {NONE, -3, -2, -1, 1, 2, 3}

B2I(b) == IF b THEN 1 ELSE 0
R(k, ret, xs) == [k |-> k, ret |-> ret, xs |-> xs]
OkR(ret, xs) == R("ok", ret, xs)
ErrR(e, xs) == R(e, <<>>, xs)

SeqsUpTo(S, n) == UNION {[1..k -> S] : k \in 0..n}
Lists == SeqsUpTo(ListVals, MaxListLen)
Reps == { [k \in 1..n |-> 200 + k] : n \in 0..3 }     \* replacement sequences (fresh, distinguishable values)
Ints == Bounds \ {NONE}

\* stable sort by a key (mode 0: the value, mode 1: value mod 10), ascending or descending; list.sort(reverse=True)
\* keeps the ORIGINAL relative order of elements with equal keys
SortKey(mode, v) == IF mode = 0 THEN v ELSE v % 10
RECURSIVE InsStable(_,_,_,_)
InsStable(sorted, v, mode, desc) ==
  IF sorted = <<>> THEN <<v>>
  ELSE IF (IF desc THEN SortKey(mode, v) > SortKey(mode, sorted[1]) ELSE SortKey(mode, v) < SortKey(mode, sorted[1]))
       THEN <<v>> \o sorted
       ELSE <<sorted[1]>> \o InsStable(Tail(sorted), v, mode, desc)
RECURSIVE SortStable(_,_,_)
SortStable(xs, mode, desc) ==
  IF xs = <<>> THEN <<>> ELSE InsStable(SortStable(SubSeq(xs, 1, Len(xs) - 1), mode, desc), xs[Len(xs)], mode, desc)

\* ---- list operations: op is a record [o, a, b, c, v, vs]
LOp(o, a, b, c, v, vs) == [o |-> o, a |-> a, b |-> b, c |-> c, v |-> v, vs |-> vs]
ListOps ==
       {LOp("getitem", i, 0, 0, 0, <<>>) : i \in Ints}
  \cup {LOp("setitem", i, 0, 0, v, <<>>) : i \in Ints, v \in NewVals}
  \cup {LOp("delitem", i, 0, 0, 0, <<>>) : i \in Ints}
  \cup {LOp("insert", i, 0, 0, v, <<>>) : i \in Ints, v \in NewVals}
  \cup {LOp("pop", i, 0, 0, 0, <<>>) : i \in Ints}
  \cup {LOp("pop_last", 0, 0, 0, 0, <<>>)}
  \cup {LOp("append", 0, 0, 0, v, <<>>) : v \in NewVals}
  \cup {LOp(o, 0, 0, 0, 0, vs) : o \in {"extend", "iadd", "add", "eq"}, vs \in SeqsUpTo(NewVals \cup ListVals, 2)}
  \cup {LOp(o, 0, 0, 0, v, <<>>) : o \in {"remove", "index", "count", "contains"}, v \in ListVals \cup NewVals}
  \cup {LOp(o, 0, 0, 0, 0, <<>>) : o \in {"len", "iter", "reverse", "sort", "clear", "copy", "tojson"}}
  \* sort variants: a = 1 reverse=True; b = 1 key = (x mod 10) -- elements that tie under the key must keep their order
  \cup {LOp("sortx", r, k, 0, 0, <<>>) : r \in {0, 1}, k \in {0, 1}}
  \cup {LOp(o, k, 0, 0, 0, <<>>) : o \in {"mul", "imul"}, k \in {-1, 0, 1, 2, 3, 4}}
  \cup {LOp("getslice", a, b, c, 0, <<>>) : a \in Bounds, b \in Bounds, c \in StepsC}
  \cup {LOp("delslice", a, b, c, 0, <<>>) : a \in Bounds, b \in Bounds, c \in StepsC}
  \cup {LOp("setslice", a, b, c, 0, vs) : a \in Bounds, b \in Bounds, c \in StepsC, vs \in Reps}

ListApply(xs, op) ==
  LET n == Len(xs)  j == NormIndex(op.a, n) IN
  CASE op.o = "getitem" -> IF j < 0 THEN ErrR("IndexError", xs) ELSE OkR(xs[j + 1], xs)
    [] op.o = "setitem" -> IF j < 0 THEN ErrR("IndexError", xs) ELSE OkR(<<>>, [xs EXCEPT ![j + 1] = op.v])
    [] op.o = "delitem" -> IF j < 0 THEN ErrR("IndexError", xs) ELSE OkR(<<>>, RemoveIdx(xs, j + 1))
    [] op.o = "insert" -> OkR(<<>>, InsertIdx(xs, ClampInsert(op.a, n) + 1, op.v))
    [] op.o = "pop" -> IF j < 0 THEN ErrR("IndexError", xs) ELSE OkR(xs[j + 1], RemoveIdx(xs, j + 1))
    [] op.o = "pop_last" -> IF n = 0 THEN ErrR("IndexError", xs) ELSE OkR(xs[n], SubSeq(xs, 1, n - 1))
    [] op.o = "append" -> OkR(<<>>, Append(xs, op.v))
    [] op.o \in {"extend", "iadd"} -> OkR(<<>>, xs \o op.vs)
    [] op.o = "add" -> OkR(xs \o op.vs, xs)
    [] op.o = "eq" -> OkR(B2I(xs = op.vs), xs)
    [] op.o = "remove" -> IF FirstPos(xs, op.v) = 0 THEN ErrR("ValueError", xs) ELSE OkR(<<>>, RemoveIdx(xs, FirstPos(xs, op.v)))
    [] op.o = "index" -> IF FirstPos(xs, op.v) = 0 THEN ErrR("ValueError", xs) ELSE OkR(FirstPos(xs, op.v) - 1, xs)
    [] op.o = "count" -> OkR(CountOf(xs, op.v), xs)
    [] op.o = "contains" -> OkR(B2I(FirstPos(xs, op.v) # 0), xs)
    [] op.o = "len" -> OkR(n, xs)
    [] op.o \in {"iter", "copy", "tojson"} -> OkR(xs, xs)
    [] op.o = "reverse" -> OkR(<<>>, RevSeq(xs))
    [] op.o = "sort" -> OkR(<<>>, SortInts(xs))
    [] op.o = "sortx" -> OkR(<<>>, SortStable(xs, op.b, op.a = 1))
    [] op.o = "clear" -> OkR(<<>>, <<>>)
    [] op.o = "mul" -> OkR(Repeat(xs, op.a), xs)
    [] op.o = "imul" -> OkR(<<>>, Repeat(xs, op.a))
    [] op.o = "getslice" -> OkR(SliceRead(xs, op.a, op.b, op.c), xs)
    [] op.o = "delslice" -> OkR(<<>>, SliceDelete(xs, op.a, op.b, op.c))
    [] op.o = "setslice" -> LET r == SliceAssign(xs, op.a, op.b, op.c, op.vs) IN
                            IF r.ok THEN OkR(<<>>, r.xs) ELSE ErrR("ValueError", xs)

\* ---- dict operations: a dict is a sequence of <<key, value>> in insertion order
CONSTANTS DKeys, DVals, MaxDictLen
DistinctKeys(d) == \A i, j \in 1..Len(d) : i # j => d[i][1] # d[j][1]
Dicts == {d \in SeqsUpTo(DKeys \X DVals, MaxDictLen) : DistinctKeys(d)}
KPos(d, k) == IF \E i \in 1..Len(d) : d[i][1] = k THEN CHOOSE i \in 1..Len(d) : d[i][1] = k ELSE 0
DSet(d, k, v) == IF KPos(d, k) = 0 THEN Append(d, <<k, v>>) ELSE [d EXCEPT ![KPos(d, k)] = <<k, v>>]
RECURSIVE DUpdate(_,_)
DUpdate(d, kvs) == IF kvs = <<>> THEN d ELSE DUpdate(DSet(d, kvs[1][1], kvs[1][2]), Tail(kvs))
\* dict equality ignores insertion order
DEq(d, e) == /\ Len(d) = Len(e) /\ \A i \in 1..Len(d) : KPos(e, d[i][1]) # 0 /\ e[KPos(e, d[i][1])][2] = d[i][2]
DOp(o, k, v, kvs) == [o |-> o, k |-> k, v |-> v, kvs |-> kvs]
UpdArgs == {kvs \in SeqsUpTo(DKeys \X (DVals \cup {250}), 2) : DistinctKeys(kvs)}
DictOps ==
       {DOp(o, k, 0, <<>>) : o \in {"getitem", "delitem", "pop", "pop_default", "get", "contains"}, k \in DKeys}
  \cup {DOp(o, k, v, <<>>) : o \in {"setitem", "setdefault"}, k \in DKeys, v \in DVals \cup {250}}
  \cup {DOp(o, 0, 0, <<>>) : o \in {"popitem", "len", "keys", "values", "items", "clear", "copy", "tojson"}}
  \cup {DOp(o, 0, 0, kvs) : o \in {"update", "ior", "or", "eq"}, kvs \in UpdArgs}
  \cup {DOp("set_missing", k, 0, <<>>) : k \in DKeys}          \* documented extension: assigning the missing marker deletes the key

DictApply(d, op) ==
  LET p == KPos(d, op.k) IN
  CASE op.o = "getitem" -> IF p = 0 THEN ErrR("KeyError", d) ELSE OkR(d[p][2], d)
    [] op.o = "delitem" -> IF p = 0 THEN ErrR("KeyError", d) ELSE OkR(<<>>, RemoveIdx(d, p))
    [] op.o = "set_missing" -> IF p = 0 THEN OkR(<<>>, d) ELSE OkR(<<>>, RemoveIdx(d, p))
    [] op.o = "pop" -> IF p = 0 THEN ErrR("KeyError", d) ELSE OkR(d[p][2], RemoveIdx(d, p))
    [] op.o = "pop_default" -> IF p = 0 THEN OkR(777, d) ELSE OkR(d[p][2], RemoveIdx(d, p))
    [] op.o = "get" -> IF p = 0 THEN OkR(777, d) ELSE OkR(d[p][2], d)
    [] op.o = "contains" -> OkR(B2I(p # 0), d)
    [] op.o = "setitem" -> OkR(<<>>, DSet(d, op.k, op.v))
    [] op.o = "setdefault" -> IF p = 0 THEN OkR(op.v, DSet(d, op.k, op.v)) ELSE OkR(d[p][2], d)
    [] op.o = "popitem" -> IF d = <<>> THEN ErrR("KeyError", d) ELSE OkR(d[Len(d)], SubSeq(d, 1, Len(d) - 1))
    [] op.o = "len" -> OkR(Len(d), d)
    [] op.o = "keys" -> OkR([i \in 1..Len(d) |-> d[i][1]], d)
    [] op.o = "values" -> OkR([i \in 1..Len(d) |-> d[i][2]], d)
    [] op.o \in {"items", "copy", "tojson"} -> OkR(d, d)
    [] op.o = "clear" -> OkR(<<>>, <<>>)
    [] op.o \in {"update", "ior"} -> OkR(<<>>, DUpdate(d, op.kvs))
    [] op.o = "or" -> OkR(DUpdate(d, op.kvs), d)
    [] op.o = "eq" -> OkR(B2I(DEq(d, op.kvs)), d)

\* ---- batched rebind on a LONG list (documented extension of pg.List): one call, two index entries, each a
\* replacement, a deletion (the missing marker) or an insertion.  Every entry addresses a position of the list AS IT
\* WAS BEFORE THE CALL, whatever the number of digits of the indices; the reference applies the higher index first.
LongLen == 12
LongList == [k \in 1..LongLen |-> 300 + k]
RbKinds == {"set", "del", "ins"}
RbOps == {[i |-> i, ki |-> ki, j |-> j, kj |-> kj] : i \in 0..(LongLen - 1), j \in 0..(LongLen - 1), ki \in RbKinds, kj \in RbKinds}
RbOne(ys, i, k, v) == CASE k = "set" -> [ys EXCEPT ![i + 1] = v]
                        [] k = "del" -> RemoveIdx(ys, i + 1)
                        [] k = "ins" -> InsertIdx(ys, i + 1, v)
RbApply(op) == RbOne(RbOne(LongList, op.j, op.kj, 402), op.i, op.ki, 401)
RbOpSeq == SetToSeq({op \in RbOps : op.i < op.j})
\* the same result described position by position (independent of the order of application)
RbExpected(op) ==
  LET piece(p) == IF p = op.i THEN (CASE op.ki = "set" -> <<401>> [] op.ki = "del" -> <<>> [] op.ki = "ins" -> <<401, LongList[p + 1]>>)
                  ELSE IF p = op.j THEN (CASE op.kj = "set" -> <<402>> [] op.kj = "del" -> <<>> [] op.kj = "ins" -> <<402, LongList[p + 1]>>)
                  ELSE <<LongList[p + 1]>>
      F[p \in 0..LongLen] == IF p = 0 THEN <<>> ELSE F[p - 1] \o piece(p - 1)
  IN F[LongLen]
RebindLaw == \A k \in 1..Len(RbOpSeq) : RbApply(RbOpSeq[k]) = RbExpected(RbOpSeq[k])

\* ---- sanity laws TLC checks on the reference itself
VARIABLE xs
Init == xs \in Lists
Next == UNCHANGED xs
LenLaw == \A op \in {o \in ListOps : o.o \in {"append", "insert"}} : Len(ListApply(xs, op).xs) = Len(xs) + 1
SliceLaw == \A op \in {o \in ListOps : o.o = "getslice"} :
              LET r == ListApply(xs, op).ret IN
              /\ Len(r) <= Len(xs)
              /\ \A i \in 1..Len(r) : \E j \in 1..Len(xs) : r[i] = xs[j]
DelSliceLaw == \A op \in {o \in ListOps : o.o = "delslice"} :
                 Len(ListApply(xs, op).xs) + Len(SliceRead(xs, op.a, op.b, op.c)) = Len(xs)
SortLaw == LET r == ListApply(xs, LOp("sort", 0, 0, 0, 0, <<>>)).xs IN
           /\ Len(r) = Len(xs) /\ \A i \in 1..(Len(r) - 1) : r[i] <= r[i + 1]
           /\ \A v \in ListVals : CountOf(r, v) = CountOf(xs, v)
DictLaw == \A d \in Dicts : \A op \in {o \in DictOps : o.o = "setitem"} :
             LET r == DictApply(d, op).xs IN DistinctKeys(r) /\ KPos(r, op.k) # 0 /\ r[KPos(r, op.k)][2] = op.v

\* ---- export
ListSeq == SetToSeq(Lists)
LOpSeq == SetToSeq(ListOps)
DictSeq == SetToSeq(Dicts)
DOpSeq == SetToSeq(DictOps)
ASSUME IOEnv.OUT_FILE = "none" \/
       JsonSerialize(IOEnv.OUT_FILE,
         [lists |-> ListSeq, lops |-> LOpSeq,
          lres |-> [i \in 1..Len(ListSeq) |-> [j \in 1..Len(LOpSeq) |-> ListApply(ListSeq[i], LOpSeq[j])]],
          dicts |-> DictSeq, dops |-> DOpSeq,
          dres |-> [i \in 1..Len(DictSeq) |-> [j \in 1..Len(DOpSeq) |-> DictApply(DictSeq[i], DOpSeq[j])]],
          rblist |-> LongList, rbops |-> RbOpSeq, rbres |-> [k \in 1..Len(RbOpSeq) |-> RbApply(RbOpSeq[k])]])
=============================================================================
