------------------------------- MODULE Store -------------------------------
(***************************************************************************)
(* Persistence half of C05: pg.save / pg.load / pg.io.* / pg.open_jsonl on *)
(* the standard and the in-memory ('/mem/') file system, and '.mem' record *)
(* sequences.                                                              *)
(*                                                                         *)
(* State: per file system a tree  loc -> node  where loc is a sequence of  *)
(* path components and node is "dir", a document [k|->"doc", v, len, stale]*)
(* or a record file [k|->"lines", recs, bad]; the open sequence writer;    *)
(* and the ghost variables gdoc / grecs: what the history of SUCCESSFUL    *)
(* writes says each path holds (last saved document; records added since   *)
(* the last 'w' open), maintained without looking at the tree.  The        *)
(* property relates the two:                                               *)
(*   ReadYourWrites: a successful Load(p) returns the value of the last    *)
(*     Save(p) (after the last Rm(p)); a Load after a Save never fails;    *)
(*   SeqReadYourWrites: ReadSeq(p) returns the records added since the     *)
(*     last open in 'w' mode (appends included), in order.                 *)
(* Paths are strings over a tiny alphabet so that the prefix handling of   *)
(* MemoryFileSystem can be transcribed literally:                          *)
(*   chars 1 '/'  2 'm'  3 'e'  4 'a'  5 '.'  6 'j'                        *)
(* Mirror = TRUE uses the transcription of MemoryFileSystem as written     *)
(* (_internal_path = lstrip by CHARACTER SET, no truncation on 'w', 'a'    *)
(* writes at position 0): TLC finds the counter-examples.  Mirror = FALSE  *)
(* is the intended file system; its behaviours are replayed on the code.   *)
(***************************************************************************)
EXTENDS Integers, Sequences, FiniteSets, TLC, Randomization
CONSTANTS FSKinds,      \* subset of {"std", "mem", "rec"}  ("rec": '.mem' record sequences)
          PathIds,      \* indices into PathTable
          Vals,         \* value ids (documents / records); Len0[v] is the length of its JSON text
          MaxRecs,      \* bound on the records of one sequence
          MemPaths,     \* the paths used on the in-memory file system
          Avoid,        \* known-bad argument classes not generated: "mem_shrink", "mem_reopen"
          Mirror, MaxLevel, SimK
VARIABLES tree, writer, gdoc, grecs, act, out
vars == <<tree, writer, gdoc, grecs, act, out>>
ghost == <<gdoc, grecs>>

SLASH == 1
\* the relative part of the path (after the file system's root: '/mem/' or the scratch directory)
PathTable == << <<2, 5, 6>>,            \* 1  m.j       first component starts with a prefix character
                <<3, 1, 2>>,            \* 2  e/m       every component consists of prefix characters
                <<4, 1, 4, 5, 6>>,      \* 3  a/a.j     harmless
                <<4, 1, 2, 5, 6>>,      \* 4  a/m.j     same directory as 3
                <<4, 5, 6>>,            \* 5  a.j       harmless, top level
                <<4>> >>                \* 6  a         a FILE path that is the DIRECTORY of paths 3 and 4: a path cannot be both;
                                        \*              saving below a file fails and leaves the file, saving onto a directory fails
Rel(p) == PathTable[p]
LenOf(v) == v              \* value v has a JSON text of length proportional to v: different lengths on purpose
Pick(S) == IF SimK = 0 \/ Cardinality(S) <= SimK THEN S ELSE RandomSubset(SimK, S)

\* ---- strings -> component sequences --------------------------------------------
RECURSIVE SplitFrom(_, _, _)
SplitFrom(s, i, cur) ==
  IF i > Len(s) THEN (IF cur = <<>> THEN <<>> ELSE <<cur>>)
  ELSE IF s[i] = SLASH THEN (IF cur = <<>> THEN SplitFrom(s, i + 1, <<>>) ELSE <<cur>> \o SplitFrom(s, i + 1, <<>>))
  ELSE SplitFrom(s, i + 1, Append(cur, s[i]))
Split(s) == SplitFrom(s, 1, <<>>)
RECURSIVE LStrip(_, _)
LStrip(s, chars) == IF s # <<>> /\ s[1] \in chars THEN LStrip(Tail(s), chars) ELSE s
MemPrefix == <<1, 2, 3, 2, 1>>                     \* '/mem/'
Full(p) == MemPrefix \o Rel(p)                     \* the path string handed to the API
\* MemoryFileSystem._internal_path as written: '/' + path.lstrip('/mem/')
LocCoded(s) == Split(LStrip(s, {1, 2, 3}))
LocIntended(s) == Split(SubSeq(s, Len(MemPrefix) + 1, Len(s)))
Loc(fs, s) == IF fs = "mem" /\ Mirror THEN LocCoded(s) ELSE LocIntended(s)
LastSlash(s) == CHOOSE i \in 1..Len(s) : s[i] = SLASH /\ \A j \in (i + 1)..Len(s) : s[j] # SLASH
DirStr(s) == SubSeq(s, 1, LastSlash(s) - 1)        \* os.path.dirname / path[:rpos]
NameOf(s) == SubSeq(s, LastSlash(s) + 1, Len(s))

\* ---- the tree --------------------------------------------------------------------
Doc(v, len, stale) == [k |-> "doc", v |-> v, len |-> len, stale |-> stale, recs |-> <<>>]
\* a record file remembers the API it was written with: "jsonl" (pg.open_jsonl: records are PyGlove values, one JSON text
\* per line) or "text" (pg.io.open_sequence without serializer: records are raw strings - the empty string and
\* whitespace-only strings included - one per line)
ApiCode(api) == IF api = "text" THEN 1 ELSE 0
LinesA(recs, bad, api) == [k |-> "lines", v |-> api, len |-> 0, stale |-> bad, recs |-> recs]
Lines(recs, bad) == LinesA(recs, bad, 0)
Apis == {"jsonl", "text"}
Dir == [k |-> "dir", v |-> 0, len |-> 0, stale |-> FALSE, recs |-> <<>>]
Has(t, loc) == loc \in DOMAIN t
IsDir(t, loc) == loc = <<>> \/ (Has(t, loc) /\ t[loc].k = "dir")
IsFile(t, loc) == loc # <<>> /\ Has(t, loc) /\ t[loc].k # "dir"
Put(t, loc, node) == [l \in DOMAIN t \cup {loc} |-> IF l = loc THEN node ELSE t[l]]
Del(t, loc) == [l \in DOMAIN t \ {loc} |-> t[l]]
Prefixes(loc) == {SubSeq(loc, 1, i) : i \in 1..Len(loc)}
\* mkdirs(dirname(path), exist_ok=True): fails if a component is a file
MkdirsOK(t, loc) == \A q \in Prefixes(loc) : ~IsFile(t, q)
Mkdirs(t, loc) == [l \in DOMAIN t \cup Prefixes(loc) |-> IF l \in DOMAIN t THEN t[l] ELSE Dir]
\* where open(path, 'w') creates a missing file: parent located by its own string, name taken raw
CreateLoc(fs, s) == Append(Loc(fs, DirStr(s)), NameOf(s))

\* ---- outcomes ----------------------------------------------------------------------
OK(v) == [k |-> "ok", v |-> v, recs |-> <<>>]
OKRecs(recs) == [k |-> "ok", v |-> 0, recs |-> recs]
Fail(why) == [k |-> why, v |-> 0, recs |-> <<>>]
\* ghost updates: what a successful write means, independently of the tree
GSave(fs, p, v) == /\ gdoc' = [gdoc EXCEPT ![fs][p] = v] /\ grecs' = [grecs EXCEPT ![fs][p] = <<>>]
GRm(fs, p) == /\ gdoc' = [gdoc EXCEPT ![fs][p] = 0] /\ grecs' = [grecs EXCEPT ![fs][p] = <<>>]
GReset(fs, p) == GRm(fs, p)
GAdd(fs, p, r) == /\ grecs' = [grecs EXCEPT ![fs][p] = Append(@, r)] /\ UNCHANGED gdoc

\* ---- actions ------------------------------------------------------------------------
NoWriterOn(fs, p) == writer.fs # fs \/ writer.p # p
NoWriter == [fs |-> "none", p |-> 0, mode |-> "none", clobber |-> FALSE]

\* pg.save(v, path): mkdirs(dirname) then open(path, 'w').write(json)
Save(fs, p, v) ==
  LET s == Full(p)  t == tree[fs]  dloc == Loc(fs, DirStr(s))  loc == Loc(fs, s) IN
  /\ fs \in {"std", "mem"} /\ NoWriterOn(fs, p) /\ (fs = "mem" => p \in MemPaths)
  /\ ~("mem_shrink" \in Avoid /\ fs = "mem" /\ gdoc[fs][p] > v)
  /\ act' = <<"Save", fs, p, v>> /\ UNCHANGED writer
  /\ IF ~MkdirsOK(t, dloc) THEN /\ out' = Fail("not_a_directory") /\ UNCHANGED <<tree, ghost>>
     ELSE LET t1 == Mkdirs(t, dloc) IN
       IF IsDir(t1, loc) THEN /\ out' = Fail("is_a_directory") /\ tree' = [tree EXCEPT ![fs] = t1] /\ UNCHANGED ghost
       ELSE IF IsFile(t1, loc) THEN
         \* existing file: as written, the in-memory buffer is not truncated
         LET old == t1[loc]
             keep == fs = "mem" /\ Mirror /\ old.len > LenOf(v)
         IN /\ tree' = [tree EXCEPT ![fs] = Put(t1, loc, Doc(v, IF keep THEN old.len ELSE LenOf(v), keep))]
            /\ out' = OK(0) /\ GSave(fs, p, v)
       ELSE /\ tree' = [tree EXCEPT ![fs] = Put(t1, CreateLoc(fs, s), Doc(v, LenOf(v), FALSE))]
            /\ out' = OK(0) /\ GSave(fs, p, v)

\* pg.save of a value that cannot be serialised (to_json_str raises): the call fails and NOTHING changes - no file is
\* created or emptied, so what was saved before is still what a later load returns
SaveBad(fs, p) ==
  /\ fs \in {"std", "mem"} /\ NoWriterOn(fs, p) /\ (fs = "mem" => p \in MemPaths)
  /\ act' = <<"SaveBad", fs, p>> /\ out' = Fail("unserializable") /\ UNCHANGED <<tree, writer, ghost>>

\* pg.load(path)
Load(fs, p) ==
  LET loc == Loc(fs, Full(p))  t == tree[fs] IN
  /\ fs \in {"std", "mem"} /\ NoWriterOn(fs, p) /\ (fs = "mem" => p \in MemPaths)
  /\ ~(IsFile(t, loc) /\ t[loc].k = "lines")           \* loading a record file as a document: not generated
  /\ act' = <<"Load", fs, p>> /\ UNCHANGED <<tree, writer, ghost>>
  /\ out' = IF IsDir(t, loc) THEN Fail("is_a_directory")
            ELSE IF ~IsFile(t, loc) THEN Fail("not_found")
            ELSE IF t[loc].stale THEN Fail("corrupt") ELSE OK(t[loc].v)

Exists(fs, p) ==
  /\ fs \in {"std", "mem"} /\ (fs = "mem" => p \in MemPaths)
  /\ act' = <<"Exists", fs, p>> /\ UNCHANGED <<tree, writer, ghost>>
  /\ out' = OK(IF Has(tree[fs], Loc(fs, Full(p))) \/ Loc(fs, Full(p)) = <<>> THEN 1 ELSE 0)

\* pg.io.rm(path): _parent_and_name, i.e. the creation location
Rm(fs, p) ==
  LET s == Full(p)  t == tree[fs]  dloc == Loc(fs, DirStr(s))  loc == CreateLoc(fs, s) IN
  /\ fs \in {"std", "mem"} /\ NoWriterOn(fs, p) /\ (fs = "mem" => p \in MemPaths)
  /\ act' = <<"Rm", fs, p>> /\ UNCHANGED writer
  /\ IF ~IsDir(t, dloc) \/ ~Has(t, loc) THEN /\ out' = Fail("not_found") /\ UNCHANGED <<tree, ghost>>
     ELSE IF IsDir(t, loc) THEN /\ out' = Fail("is_a_directory") /\ UNCHANGED <<tree, ghost>>
     ELSE /\ tree' = [tree EXCEPT ![fs] = Del(t, loc)] /\ out' = OK(0) /\ GRm(fs, p)

\* pg.open_jsonl(path, mode) / pg.io.open_sequence(path, mode) ... add(rec) ... close()
OpenSeq(fs, p, mode, api) ==
  LET s == Full(p)  t == tree[fs]  dloc == Loc(fs, DirStr(s))  loc == Loc(fs, s) IN
  /\ writer = NoWriter /\ mode \in {"w", "a"} /\ (fs = "mem" => p \in MemPaths)
  /\ ~("mem_reopen" \in Avoid /\ fs = "mem" /\ (gdoc[fs][p] # 0 \/ grecs[fs][p] # <<>> \/ mode = "a"))
  /\ act' = <<"OpenSeq", fs, p, mode, api>>
  \* appending with the other record format to an existing record file: not generated
  /\ LET l == IF fs = "rec" THEN <<Rel(p)>> ELSE loc IN
     ~(mode = "a" /\ Has(t, l) /\ t[l].k = "lines" /\ t[l].recs # <<>> /\ t[l].v # ApiCode(api))
  /\ IF fs = "rec" THEN
       \* MemorySequenceIO: records keyed by the path string; 'w' resets, 'a' keeps
       /\ tree' = [tree EXCEPT ![fs] = Put(t, <<Rel(p)>>, IF mode = "w" \/ ~Has(t, <<Rel(p)>>) \/ t[<<Rel(p)>>].recs = <<>> THEN LinesA(<<>>, FALSE, ApiCode(api)) ELSE t[<<Rel(p)>>])]
       /\ writer' = [fs |-> fs, p |-> p, mode |-> mode, clobber |-> FALSE] /\ out' = OK(0)
       /\ IF mode = "w" THEN GReset(fs, p) ELSE UNCHANGED ghost
     ELSE IF ~MkdirsOK(t, dloc) THEN /\ out' = Fail("not_a_directory") /\ UNCHANGED <<tree, writer, ghost>>
     ELSE LET t1 == Mkdirs(t, dloc) IN
       IF IsDir(t1, loc) THEN /\ out' = Fail("is_a_directory") /\ tree' = [tree EXCEPT ![fs] = t1] /\ UNCHANGED <<writer, ghost>>
       ELSE IF IsFile(t1, loc) /\ t1[loc].k = "doc" THEN FALSE          \* appending records to a document: not generated
       ELSE IF ~IsFile(t1, loc) /\ mode = "a" /\ fs = "mem" /\ Mirror
            THEN /\ out' = Fail("not_found") /\ tree' = [tree EXCEPT ![fs] = t1] /\ UNCHANGED <<writer, ghost>>  \* as written: 'a' never creates
       ELSE LET old == IF IsFile(t1, loc) THEN t1[loc] ELSE Lines(<<>>, FALSE)
                \* as written: 'w' on an existing buffer keeps the old bytes (stale at once); 'a' starts writing at
                \* position 0, so the first record added clobbers what was there
                coded == fs = "mem" /\ Mirror /\ old.recs # <<>>
                start == IF mode = "w" THEN LinesA(<<>>, coded, ApiCode(api)) ELSE LinesA(old.recs, old.stale, ApiCode(api))
                at == IF IsFile(t1, loc) THEN loc ELSE CreateLoc(fs, s)
            IN /\ tree' = [tree EXCEPT ![fs] = Put(t1, at, start)]
               /\ writer' = [fs |-> fs, p |-> p, mode |-> mode, clobber |-> coded /\ mode = "a"] /\ out' = OK(0)
               /\ IF mode = "w" THEN GReset(fs, p) ELSE UNCHANGED ghost

WriterLoc == IF writer.fs = "rec" THEN <<Rel(writer.p)>>
             ELSE LET l == Loc(writer.fs, Full(writer.p)) IN
                  IF IsFile(tree[writer.fs], l) THEN l ELSE CreateLoc(writer.fs, Full(writer.p))
Add(rec) ==
  /\ writer # NoWriter /\ Len(grecs[writer.fs][writer.p]) < MaxRecs
  /\ act' = <<"Add", rec>> /\ out' = OK(0) /\ UNCHANGED writer
  /\ LET l == WriterLoc  n == tree[writer.fs][l] IN
     tree' = [tree EXCEPT ![writer.fs] = Put(@, l, LinesA(Append(n.recs, rec), n.stale \/ writer.clobber, n.v))]
  /\ GAdd(writer.fs, writer.p, rec)
\* add() of a record the serializer rejects (or, for the text API, a record that is not a string): fails, nothing written
AddBad ==
  /\ writer # NoWriter
  /\ act' = <<"AddBad">> /\ out' = Fail("unserializable") /\ UNCHANGED <<tree, writer, ghost>>
CloseSeq ==
  /\ writer # NoWriter
  /\ act' = <<"CloseSeq">> /\ out' = OK(0) /\ writer' = NoWriter /\ UNCHANGED <<tree, ghost>>

ReadSeq(fs, p, api) ==
  LET t == tree[fs]  loc == IF fs = "rec" THEN <<Rel(p)>> ELSE Loc(fs, Full(p)) IN
  /\ NoWriterOn(fs, p) /\ (fs = "mem" => p \in MemPaths)
  /\ (Has(t, loc) /\ t[loc].k = "lines" /\ t[loc].recs # <<>>) => t[loc].v = ApiCode(api)      \* read with the API it was written with
  /\ ~(Has(t, loc) /\ t[loc].k = "doc")
  /\ act' = <<"ReadSeq", fs, p, api>> /\ UNCHANGED <<tree, writer, ghost>>
  /\ out' = IF fs = "rec" THEN OKRecs(IF Has(t, loc) THEN t[loc].recs ELSE <<>>)
            ELSE IF IsDir(t, loc) THEN Fail("is_a_directory")
            ELSE IF ~IsFile(t, loc) THEN Fail("not_found")
            ELSE IF t[loc].stale THEN Fail("corrupt") ELSE OKRecs(t[loc].recs)

\* pg.io.mkdirs(path): makes the path itself a directory (fails when a component, the last one included, is a file)
MkdirAt(fs, p) ==
  LET t == tree[fs]  loc == Loc(fs, Full(p)) IN
  /\ fs \in {"std", "mem"} /\ NoWriterOn(fs, p) /\ (fs = "mem" => p \in MemPaths)
  /\ act' = <<"MkdirAt", fs, p>> /\ UNCHANGED <<writer, ghost>>
  /\ IF MkdirsOK(t, loc) THEN /\ tree' = [tree EXCEPT ![fs] = Mkdirs(t, loc)] /\ out' = OK(0)
     ELSE /\ out' = Fail("not_a_directory") /\ UNCHANGED tree

Init == /\ tree = [fs \in FSKinds |-> <<>> :> Dir] /\ writer = NoWriter
        /\ gdoc = [fs \in FSKinds |-> [p \in PathIds |-> 0]] /\ grecs = [fs \in FSKinds |-> [p \in PathIds |-> <<>>]]
        /\ act = <<"Init">> /\ out = OK(0)
Next ==
  \/ \E fs \in FSKinds \ {"rec"} : \E p \in Pick(PathIds) :
        (\E v \in Pick(Vals) : Save(fs, p, v)) \/ SaveBad(fs, p) \/ Load(fs, p) \/ Exists(fs, p) \/ Rm(fs, p) \/ MkdirAt(fs, p)
  \/ \E fs \in FSKinds : \E p \in Pick(PathIds) : \E api \in Apis : (\E m \in {"w", "a"} : OpenSeq(fs, p, m, api)) \/ ReadSeq(fs, p, api)
  \/ \E r \in Pick(Vals) : Add(r)
  \/ AddBad
  \/ CloseSeq
Spec == Init /\ [][Next]_vars
LevelBound == TLCGet("level") <= MaxLevel

\* ---- the property ---------------------------------------------------------------------
ReadYourWrites ==
  act[1] = "Load" =>
    LET want == gdoc[act[2]][act[3]] IN
    IF want # 0 THEN out = OK(want) ELSE out.k # "ok"
SeqReadYourWrites ==
  act[1] = "ReadSeq" =>
    LET want == grecs[act[2]][act[3]] IN
    IF want # <<>> THEN out = OKRecs(want) ELSE (out.k # "ok" \/ out.recs = <<>>)
\* a write is acknowledged unless the path is in a file / directory conflict with another path of the model (one is a
\* proper component prefix of the other) or was made a directory by MkdirAt
CompPrefix(a, b) == Len(a) < Len(b) /\ SubSeq(b, 1, Len(a)) = a
Conflicting(p) == \E q \in PathIds : CompPrefix(Split(Rel(q)), Split(Rel(p))) \/ CompPrefix(Split(Rel(p)), Split(Rel(q)))
WritesSucceed == (act[1] \in {"Save", "OpenSeq"} /\ ~Conflicting(act[3]) /\ out.k # "ok") =>
                    (act[2] # "rec" /\ IsDir(tree[act[2]], Loc(act[2], Full(act[3]))))
\* (that a refused write leaves what was saved readable is ReadYourWrites: the ghost is only updated by successful writes)
\* a write that reports success is never lost to another path: files of different paths do not alias
NoAliasing == \A fs \in FSKinds \ {"rec"} : \A p, q \in PathIds :
                p # q => (LET a == Loc(fs, Full(p))  b == Loc(fs, Full(q)) IN a # b \/ a = <<>>)
TypeOK == /\ writer = NoWriter \/ (writer.fs \in FSKinds /\ writer.p \in PathIds)
          /\ \A fs \in FSKinds : \A l \in DOMAIN tree[fs] : tree[fs][l].k \in {"dir", "doc", "lines"}
view == <<tree, writer, gdoc, grecs>>
=============================================================================
