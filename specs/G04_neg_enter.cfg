SPECIFICATION Spec
CONSTANTS
  Tier = "tiny"
  Variant = "enter"
  MaxLevel = 0
  SimK = 0
INVARIANT RebindLaw
