SPECIFICATION Spec
CONSTANTS
  MaxNodes = 3
  Keys = {1}
  Leafs = {101}
  Shapes = {200, 210}
  MaxLen = 2
  Acts = {"dict", "list", "flags", "scope"}
  Mirror = FALSE
  MaxLevel = 4
  InitKinds <- IK_DictList
  SimK = 0
CONSTRAINT LevelBound
VIEW view
