SPECIFICATION Spec
CONSTANTS
  Budget = 4
  SpaceSize = 5
  MaxMeas = 3
  Rewards <- PalNZP
  Accs = {1, 3}
  Steps = {0, 1, 2}
  Extras = {0, 1, 2, 3}
  MonotoneSteps = TRUE
  Objective = "reward"
  Policy = "neg"
  CtrlAt = {}
  MetaKeys = {1, 2}
  MetaVals = {1, 2, 3}
  LinkNames = {1, 2}
  Urls = {1, 2}
  FinalRule = "last"
  BestRule = "strict"
  LinksRule = "recorded"
  RedoneRule = "noop"
  SimK = 1
INVARIANT TypeOK
INVARIANT IdsDense
INVARIANT SweepOrder
INVARIANT BudgetRespected
INVARIANT OnePending
INVARIANT FinalShape
INVARIANT FinalIsLargestStep
INVARIANT BestIsArgmax
INVARIANT FedIsHistory
INVARIANT CountersMatch
INVARIANT HandlesAreYielded
INVARIANT CtrlTrialsShape
PROPERTY TrialsOnlyGrow
PROPERTY MeasAppendOnly
PROPERTY CompletedFrozen
PROPERTY EndIsFinal
PROPERTY ClosedStaysClosed
PROPERTY PendingIsReoffered
PROPERTY FailedCallChangesNothing
PROPERTY ReadsArePure
PROPERTY MetaWriteIsolated
PROPERTY MetaReadIsCurrent
PROPERTY DoneRecordsExtras
PROPERTY BestOnlyImproves
PROPERTY FedAppendOnly
PROPERTY SkipNeverFeeds
PROPERTY StopEarlyIsPolicy
