SPECIFICATION Spec
CONSTANTS
  Tier = "quick"
  Canonical = FALSE
  Mode = "design"
INVARIANT LawsHoldOutsideZones
INVARIANT SortTotalOutsideZones
