SPECIFICATION Spec
CONSTANTS
  Budget = 3
  SpaceSize = 4
  MaxMeas = 2
  Rewards <- PalNP
  Accs = {}
  Steps = {0}
  Extras = {0}
  MonotoneSteps = TRUE
  Objective = "reward"
  Policy = "neg"
  CtrlAt = {3}
  MetaKeys = {1}
  MetaVals = {1}
  LinkNames = {1}
  Urls = {1}
  FinalRule = "last"
  BestRule = "strict"
  LinksRule = "recorded"
  RedoneRule = "noop"
  SimK = 0
VIEW view
INVARIANT TypeOK
INVARIANT IdsDense
INVARIANT SweepOrder
INVARIANT BudgetRespected
INVARIANT OnePending
INVARIANT FinalShape
INVARIANT FinalIsLargestStep
INVARIANT BestIsArgmax
INVARIANT FedIsHistory
INVARIANT CountersMatch
INVARIANT HandlesAreYielded
INVARIANT CtrlTrialsShape
PROPERTY TrialsOnlyGrow
PROPERTY MeasAppendOnly
PROPERTY CompletedFrozen
PROPERTY EndIsFinal
PROPERTY ClosedStaysClosed
PROPERTY PendingIsReoffered
PROPERTY FailedCallChangesNothing
PROPERTY ReadsArePure
PROPERTY MetaWriteIsolated
PROPERTY MetaReadIsCurrent
PROPERTY DoneRecordsExtras
PROPERTY BestOnlyImproves
PROPERTY FedAppendOnly
PROPERTY SkipNeverFeeds
PROPERTY StopEarlyIsPolicy
