------------------------------- MODULE Sampling -------------------------------
(***************************************************************************)
(* C16 - concurrent sampling with the in-memory backend of pg.sample.      *)
(*                                                                         *)
(* Every worker is a process whose program counter follows                 *)
(*   _InMemoryBackend.__init__  (get-or-create of the named study,         *)
(*                               set-up of the shared algorithm),          *)
(*   _InMemoryBackend.next      (active test, latest-trial lookup, status  *)
(*                               test, create_trial under the study lock), *)
(*   the user step              (add_measurement, then done / skip /       *)
(*                               early stop / done + end_loop),            *)
(*   _InMemoryFeedback.done/skip (status test, status set, feedback to the *)
(*                               algorithm, _complete_trial under the      *)
(*                               study lock).                              *)
(* One action = one linearisation point of the code = one hook event       *)
(* (pgverif/sampling.py binds the two).                                    *)
(*                                                                         *)
(* Switches (TRUE = the mechanism as it is coded at the pinned commit,     *)
(* FALSE = the intended, atomic, mechanism = the code after the proposed   *)
(* fix):                                                                   *)
(*   MirrorGoc    get-or-create of the named study is test-then-store      *)
(*                without a lock;  FALSE: under the module lock `regLock`  *)
(*   MirrorSetup  `if algorithm.dna_spec is None: algorithm.setup()` is    *)
(*                test-then-act without a lock; FALSE: under `regLock`     *)
(*   MirrorDone   done()/skip() test `status == PENDING` and set it        *)
(*                without a lock;  FALSE: test-and-set under the study lock*)
(* Calibration switches (TRUE as coded *and* intended; FALSE models the    *)
(* single-edit mutants "lock removed" at design level):                     *)
(*   LockCreate   create_trial holds the study lock                        *)
(*   LockComplete _complete_trial holds the study lock                     *)
(*   LockAlg      evolution's propose/feedback hold the algorithm lock     *)
(***************************************************************************)
EXTENDS Integers, Sequences, FiniteSets, TLC

CONSTANTS Workers, Configs, MirrorGoc, MirrorSetup, MirrorDone,
          LockCreate, LockComplete, LockAlg, NULL

(* A configuration (frozen in `cf` by Init) is a record                    *)
(*   nw      number of participating workers (1..nw)                       *)
(*   named   TRUE: all workers pass the same name (one shared study);      *)
(*           FALSE: name=None, every worker gets a private study           *)
(*   groups  sequence: the group *declared* by worker w (an integer code   *)
(*           per distinct group id; workers that pass group=None get a     *)
(*           code of their own: the per-thread default)                    *)
(*   n       requested number of trials (num_examples; 0 is legal; None =  *)
(*           unbounded is represented by a number no run reaches)          *)
(*   ops     set of user steps a worker may choose for a trial:            *)
(*           "done" (add_measurement, done), "skip" (skip),                *)
(*           "early" (add_measurement, should_stop_early, skip),           *)
(*           "done_end" (add_measurement, done, end_loop)                  *)
(*   reward  sequence: reward reported for trial id i                      *)
(*   warm    TRUE: the workers start one after the other (the study exists *)
(*           and the algorithm is set up before the second worker starts); *)
(*           FALSE: all constructors race                                  *)
(*   evo     TRUE: the algorithm takes feedback and has its own lock       *)
(*           (pg.evolution.Evolution); FALSE: pg.geno.Random/Sweeping      *)

VARIABLES
  cf,
  \* per worker
  pc, op, cur, seen, newId, bseen, did,
  \* registry of named studies and the shared algorithm
  registry, studies, myStudy, regLock, algReady, algDone, algLock, nProp, nFb, gProp, gFb, pop,
  \* per study (a study is identified by the worker that created it)
  trials, latest, active, studyLock, pendingCnt, completedCnt, infeasibleCnt, best,
  \* ghost: which groups each trial was handed to
  delivered

wvars == <<pc, op, cur, seen, newId, bseen, did>>
avars == <<registry, studies, myStudy, regLock, algReady, algDone, algLock, nProp, nFb, gProp, gFb, pop>>
svars == <<trials, latest, active, studyLock, pendingCnt, completedCnt, infeasibleCnt, best>>
vars  == <<cf, wvars, avars, svars, delivered>>

Active   == {w \in Workers : w <= cf.nw}
Groups   == {cf.groups[w] : w \in Active}
G(w)     == cf.groups[w]
S(w)     == myStudy[w]
Tr(w)    == trials[S(w)][cur[w]]
RewardOf(id) == IF id \in DOMAIN cf.reward THEN cf.reward[id] ELSE 0
Skipping(w)  == op[w] \in {"skip", "early"}

\* ---- where a worker goes next -------------------------------------------------
StartPc    == IF MirrorGoc THEN "goc_test" ELSE "goc_acq"
AfterGoc   == IF MirrorGoc THEN (IF MirrorSetup THEN "setup_test" ELSE "setup_acq") ELSE "goc_rel"
AfterSetup == IF MirrorSetup THEN "next" ELSE "setup_rel"
TestEntry  == IF MirrorDone THEN "d_test" ELSE "m_acq"
AfterTrial(w) == IF op[w] = "done_end" THEN "end" ELSE "next"
FirstFb       == IF cf.evo THEN "f_fit" ELSE "f_count"
AfterSet(w)   == IF Skipping(w) THEN "k_acq" ELSE FirstFb

InitRest ==     \* everything but the choice of the configuration
  /\ pc = [w \in Workers |-> IF w <= cf.nw THEN (IF cf.warm THEN "next" ELSE StartPc) ELSE "stop"]
  /\ op = [w \in Workers |-> "none"]
  /\ cur = [w \in Workers |-> 0] /\ seen = [w \in Workers |-> 0]
  /\ newId = [w \in Workers |-> 0] /\ bseen = [w \in Workers |-> 0]
  /\ did = [w \in Workers |-> FALSE]
  /\ registry = (IF cf.warm THEN 1 ELSE NULL) /\ studies = (IF cf.warm THEN {1} ELSE {})
  /\ myStudy = [w \in Workers |-> IF cf.warm /\ w <= cf.nw THEN 1 ELSE NULL]
  /\ regLock = NULL /\ algReady = cf.warm /\ algDone = cf.warm /\ algLock = NULL
  /\ nProp = 0 /\ nFb = 0 /\ gProp = 0 /\ gFb = 0 /\ pop = 0
  /\ trials = [s \in Workers |-> <<>>]
  /\ latest = [s \in Workers |-> [g \in Groups |-> 0]]
  /\ active = [s \in Workers |-> TRUE]
  /\ studyLock = [s \in Workers |-> NULL]
  /\ pendingCnt = [s \in Workers |-> 0] /\ completedCnt = [s \in Workers |-> 0]
  /\ infeasibleCnt = [s \in Workers |-> 0] /\ best = [s \in Workers |-> 0]
  /\ delivered = {}
Init == cf \in Configs /\ InitRest

Goto(w, l) == pc' = [pc EXCEPT ![w] = l]

\* ---- module-level lock of the fixed constructor (unused when Mirror*) ---------
AcqReg(w) ==
  /\ pc[w] \in {"goc_acq", "setup_acq"} /\ regLock = NULL
  /\ regLock' = w
  /\ Goto(w, IF pc[w] = "goc_acq" THEN "goc_test" ELSE "setup_test")
  /\ UNCHANGED <<cf, op, cur, seen, newId, bseen, did, registry, studies, myStudy, algReady, algDone, algLock,
                 nProp, nFb, gProp, gFb, pop, svars, delivered>>
RelReg(w) ==
  /\ pc[w] \in {"goc_rel", "setup_rel"}
  /\ regLock' = NULL
  /\ Goto(w, IF pc[w] = "goc_rel" THEN (IF MirrorSetup THEN "setup_test" ELSE "setup_acq") ELSE "next")
  /\ UNCHANGED <<cf, op, cur, seen, newId, bseen, did, registry, studies, myStudy, algReady, algDone, algLock,
                 nProp, nFb, gProp, gFb, pop, svars, delivered>>

\* ---- get-or-create of the named study -----------------------------------------
GocTest(w) ==
  /\ pc[w] = "goc_test"
  /\ IF ~cf.named           \* name=None: a private study that is never registered
     THEN /\ myStudy' = [myStudy EXCEPT ![w] = w] /\ studies' = studies \cup {w} /\ Goto(w, AfterGoc)
     ELSE IF registry = NULL
     THEN Goto(w, "goc_store") /\ UNCHANGED <<myStudy, studies>>
     ELSE myStudy' = [myStudy EXCEPT ![w] = registry] /\ Goto(w, AfterGoc) /\ UNCHANGED studies
  /\ UNCHANGED <<cf, op, cur, seen, newId, bseen, did, registry, regLock, algReady, algDone, algLock,
                 nProp, nFb, gProp, gFb, pop, svars, delivered>>
GocStore(w) ==
  /\ pc[w] = "goc_store"
  /\ registry' = w /\ studies' = studies \cup {w} /\ myStudy' = [myStudy EXCEPT ![w] = w]
  /\ Goto(w, AfterGoc)
  /\ UNCHANGED <<cf, op, cur, seen, newId, bseen, did, regLock, algReady, algDone, algLock,
                 nProp, nFb, gProp, gFb, pop, svars, delivered>>

\* ---- set-up of the shared algorithm -------------------------------------------
SetupTest(w) ==
  /\ pc[w] = "setup_test"
  /\ Goto(w, IF algReady THEN AfterSetup ELSE "setup_begin")
  /\ UNCHANGED <<cf, op, cur, seen, newId, bseen, did, avars, svars, delivered>>
SetupBegin(w) ==   \* DNAGenerator.setup, first statement: the DNASpec becomes visible to the test above
  /\ pc[w] = "setup_begin"
  /\ algReady' = TRUE
  /\ Goto(w, "setup_do")
  /\ UNCHANGED <<cf, op, cur, seen, newId, bseen, did, registry, studies, myStudy, regLock, algDone, algLock,
                 nProp, nFb, gProp, gFb, pop, svars, delivered>>
SetupDo(w) ==      \* rest of DNAGenerator.setup: counters reset (evolution: fresh lock, empty population)
  /\ pc[w] = "setup_do"
  /\ algDone' = TRUE /\ nProp' = 0 /\ nFb' = 0 /\ pop' = 0 /\ algLock' = NULL
  /\ Goto(w, AfterSetup)
  /\ UNCHANGED <<cf, op, cur, seen, newId, bseen, did, registry, studies, myStudy, regLock, algReady, gProp, gFb,
                 svars, delivered>>

\* ---- next(): active test, lookup of the group's latest trial, its status ------
NextActive(w) ==
  /\ pc[w] = "next"
  /\ Goto(w, IF active[S(w)] THEN "lookup" ELSE "stop")
  /\ UNCHANGED <<cf, op, cur, seen, newId, bseen, did, avars, svars, delivered>>
NextLookup(w) ==
  /\ pc[w] = "lookup"
  /\ seen' = [seen EXCEPT ![w] = latest[S(w)][G(w)]]
  /\ Goto(w, "status")
  /\ UNCHANGED <<cf, op, cur, newId, bseen, did, avars, svars, delivered>>
NextStatus(w) ==
  /\ pc[w] = "status"
  /\ IF seen[w] # 0 /\ trials[S(w)][seen[w]].status = "P"
     THEN /\ cur' = [cur EXCEPT ![w] = seen[w]]
          /\ delivered' = delivered \cup {<<S(w), seen[w], G(w)>>}
          /\ Goto(w, "got")
     ELSE Goto(w, "c_acq") /\ UNCHANGED <<cur, delivered>>
  /\ UNCHANGED <<cf, op, seen, newId, bseen, did, avars, svars>>

\* ---- the study lock (create_trial = section 1, _complete_trial = section 2,
\*      test-and-set of the fixed done()/skip() = section 3) ----------------------
WantsStudy(w) ==
  \/ pc[w] \in {"c_acq", "k_acq", "m_acq"}
  \/ pc[w] = FirstFb /\ Tr(w).inf    \* a racing skip() made the trial infeasible: no feedback
AcqTarget(w) == IF pc[w] = "c_acq" THEN "c_check" ELSE IF pc[w] = "m_acq" THEN "d_test" ELSE "k_counts"
Locked(w) == IF pc[w] = "c_acq" THEN LockCreate ELSE IF pc[w] = "m_acq" THEN TRUE ELSE LockComplete
AcqStudy(w) ==
  /\ WantsStudy(w)
  /\ IF Locked(w)
     THEN studyLock[S(w)] = NULL /\ studyLock' = [studyLock EXCEPT ![S(w)] = w]
     ELSE UNCHANGED studyLock
  /\ Goto(w, AcqTarget(w))
  /\ UNCHANGED <<cf, op, cur, seen, newId, bseen, did, avars, trials, latest, active, pendingCnt,
                 completedCnt, infeasibleCnt, best, delivered>>
Unlock(w) == studyLock' = [studyLock EXCEPT ![S(w)] = IF @ = w THEN NULL ELSE @]
RelStudy(w) ==
  /\ pc[w] \in {"c_rel", "k_rel", "m_rel"}
  /\ Unlock(w)
  /\ Goto(w, CASE pc[w] = "c_rel" -> "got"
               [] pc[w] = "k_rel" -> AfterTrial(w)
               [] pc[w] = "m_rel" -> IF did[w] THEN AfterSet(w) ELSE AfterTrial(w))
  /\ did' = [did EXCEPT ![w] = FALSE]
  /\ UNCHANGED <<cf, op, cur, seen, newId, bseen, avars, trials, latest, active, pendingCnt,
                 completedCnt, infeasibleCnt, best, delivered>>

\* ---- create_trial -------------------------------------------------------------
CheckMax(w) ==
  /\ pc[w] = "c_check"
  /\ IF Len(trials[S(w)]) + 1 > cf.n
     THEN Unlock(w) /\ Goto(w, "stop")                    \* StopIteration leaves the `with`
     ELSE UNCHANGED studyLock /\ Goto(w, IF cf.evo THEN "p_acq" ELSE "c_propose")
  /\ UNCHANGED <<cf, op, cur, seen, newId, bseen, did, avars, trials, latest, active, pendingCnt,
                 completedCnt, infeasibleCnt, best, delivered>>
AcqAlg(w) ==
  /\ \/ pc[w] = "p_acq"
     \/ pc[w] = "f_acq"
  /\ IF LockAlg THEN algLock = NULL /\ algLock' = w ELSE UNCHANGED algLock
  /\ Goto(w, IF pc[w] = "p_acq" THEN "c_propose" ELSE "f_pop")
  /\ UNCHANGED <<cf, op, cur, seen, newId, bseen, did, registry, studies, myStudy, regLock, algReady, algDone,
                 nProp, nFb, gProp, gFb, pop, svars, delivered>>
Propose(w) ==      \* algorithm.propose(): returns (releasing the algorithm lock), then counts
  /\ pc[w] = "c_propose"
  /\ nProp' = nProp + 1 /\ gProp' = gProp + 1
  /\ algLock' = IF algLock = w THEN NULL ELSE algLock
  /\ Goto(w, "c_alloc")
  /\ UNCHANGED <<cf, op, cur, seen, newId, bseen, did, registry, studies, myStudy, regLock, algReady, algDone,
                 nFb, gFb, pop, svars, delivered>>
Alloc(w) ==
  /\ pc[w] = "c_alloc"
  /\ newId' = [newId EXCEPT ![w] = Len(trials[S(w)]) + 1]
  /\ Goto(w, "c_append")
  /\ UNCHANGED <<cf, op, cur, seen, bseen, did, avars, svars, delivered>>
AppendTrial(w) ==
  /\ pc[w] = "c_append"
  /\ LET s == S(w)  p == Len(trials[s]) + 1 IN
     /\ trials' = [trials EXCEPT ![s] = Append(@, [id |-> newId[w], group |-> G(w), status |-> "P",
                                                  inf |-> FALSE, fit |-> FALSE, fed |-> 0, ncomp |-> 0])]
     /\ pendingCnt' = [pendingCnt EXCEPT ![s] = @ + 1]
     /\ latest' = [latest EXCEPT ![s][G(w)] = p]
     /\ cur' = [cur EXCEPT ![w] = p]
     /\ delivered' = delivered \cup {<<s, p, G(w)>>}
  /\ Goto(w, "c_rel")
  /\ UNCHANGED <<cf, op, seen, newId, bseen, did, avars, active, studyLock, completedCnt, infeasibleCnt, best>>

\* ---- pg.sample between next() and the user: a trial whose DNA already carries a reward (an
\*      evolution stores the fitness in the DNA's metadata when it is fed) is not handed to the
\*      user; pg.sample reports that reward itself, ignoring the race-condition error -------------
ReadReward(w) ==
  /\ pc[w] = "got"
  /\ Goto(w, IF Tr(w).fit THEN "sc_add" ELSE "user")
  /\ UNCHANGED <<cf, op, cur, seen, newId, bseen, did, avars, svars, delivered>>
ShortAdd(w) ==      \* feedback(reward): add_measurement, then done() unless the trial is finished already
  /\ pc[w] = "sc_add"
  /\ op' = [op EXCEPT ![w] = "done"]
  /\ Goto(w, IF Tr(w).status = "P" THEN TestEntry ELSE "next")
  /\ UNCHANGED <<cf, cur, seen, newId, bseen, did, avars, svars, delivered>>

\* ---- the user step ------------------------------------------------------------
Choose(w) ==
  /\ pc[w] = "user"
  /\ \E o \in cf.ops :
       /\ op' = [op EXCEPT ![w] = o]
       /\ Goto(w, IF o = "skip" THEN TestEntry ELSE "u_add")
  /\ UNCHANGED <<cf, cur, seen, newId, bseen, did, avars, svars, delivered>>
AddMeasurement(w) ==     \* accepted iff the trial is still PENDING; otherwise RaceConditionError (ignored)
  /\ pc[w] = "u_add"
  /\ Goto(w, TestEntry)
  /\ UNCHANGED <<cf, op, cur, seen, newId, bseen, did, avars, svars, delivered>>
EndLoop(w) ==
  /\ pc[w] = "end"
  /\ active' = [active EXCEPT ![S(w)] = FALSE]
  /\ op' = [op EXCEPT ![w] = "done"]
  /\ Goto(w, "next")
  /\ UNCHANGED <<cf, cur, seen, newId, bseen, did, avars, trials, latest, studyLock, pendingCnt,
                 completedCnt, infeasibleCnt, best, delivered>>

\* ---- done() / skip(): status test, status set ---------------------------------
\* (`did[w]` remembers, in the locked variant, that this worker did the set.)
DoneTest(w) ==
  /\ pc[w] = "d_test"
  /\ IF Tr(w).status = "P"
     THEN Goto(w, "d_set")
     ELSE Goto(w, IF MirrorDone THEN AfterTrial(w) ELSE "m_rel")
  /\ UNCHANGED <<cf, op, cur, seen, newId, bseen, did, avars, svars, delivered>>
DoneSet(w) ==
  /\ pc[w] = "d_set"
  /\ trials' = [trials EXCEPT ![S(w)][cur[w]].status = "C",
                              ![S(w)][cur[w]].inf = @ \/ Skipping(w)]
  /\ IF MirrorDone THEN Goto(w, AfterSet(w)) /\ UNCHANGED did
                   ELSE Goto(w, "m_rel") /\ did' = [did EXCEPT ![w] = TRUE]
  /\ UNCHANGED <<cf, op, cur, seen, newId, bseen, avars, latest, active, studyLock, pendingCnt,
                 completedCnt, infeasibleCnt, best, delivered>>

\* ---- feedback to the algorithm ------------------------------------------------
SetFitness(w) ==     \* Evolution._feedback: set_fitness(dna, reward), before the algorithm lock is taken
  /\ pc[w] = "f_fit" /\ ~Tr(w).inf
  /\ trials' = [trials EXCEPT ![S(w)][cur[w]].fit = TRUE]
  /\ Goto(w, "f_acq")
  /\ UNCHANGED <<cf, op, cur, seen, newId, bseen, did, avars, latest, active, studyLock, pendingCnt,
                 completedCnt, infeasibleCnt, best, delivered>>
EvoPopulation(w) ==
  /\ pc[w] = "f_pop"
  /\ pop' = pop + 1
  /\ Goto(w, "f_rel")
  /\ UNCHANGED <<cf, op, cur, seen, newId, bseen, did, registry, studies, myStudy, regLock, algReady, algDone,
                 algLock, nProp, nFb, gProp, gFb, svars, delivered>>
RelAlg(w) ==
  /\ pc[w] = "f_rel"
  /\ algLock' = IF algLock = w THEN NULL ELSE algLock
  /\ Goto(w, "f_count")
  /\ UNCHANGED <<cf, op, cur, seen, newId, bseen, did, registry, studies, myStudy, regLock, algReady, algDone,
                 nProp, nFb, gProp, gFb, pop, svars, delivered>>
AlgFeedback(w) ==
  /\ pc[w] = "f_count" /\ (cf.evo \/ ~Tr(w).inf)
  /\ nFb' = nFb + 1 /\ gFb' = gFb + 1
  /\ trials' = [trials EXCEPT ![S(w)][cur[w]].fed = @ + 1]
  /\ Goto(w, "k_acq")
  /\ UNCHANGED <<cf, op, cur, seen, newId, bseen, did, registry, studies, myStudy, regLock, algReady, algDone,
                 algLock, nProp, gProp, pop, latest, active, studyLock, pendingCnt, completedCnt,
                 infeasibleCnt, best, delivered>>

\* ---- _complete_trial ----------------------------------------------------------
CompleteCounts(w) ==
  /\ pc[w] = "k_counts"
  /\ LET s == S(w) IN
     /\ completedCnt' = [completedCnt EXCEPT ![s] = @ + 1]
     /\ pendingCnt' = [pendingCnt EXCEPT ![s] = @ - 1]
     /\ trials' = [trials EXCEPT ![s][cur[w]].ncomp = @ + 1]
     /\ IF Tr(w).inf
        THEN infeasibleCnt' = [infeasibleCnt EXCEPT ![s] = @ + 1] /\ Goto(w, "k_done")
        ELSE UNCHANGED infeasibleCnt /\ Goto(w, "k_best")
  /\ UNCHANGED <<cf, op, cur, seen, newId, bseen, did, avars, latest, active, studyLock, best, delivered>>
BestRead(w) ==
  /\ pc[w] = "k_best"
  /\ bseen' = [bseen EXCEPT ![w] = best[S(w)]]
  /\ Goto(w, "k_done")
  /\ UNCHANGED <<cf, op, cur, seen, newId, did, avars, svars, delivered>>
CompleteDone(w) ==
  /\ pc[w] = "k_done"
  /\ LET s == S(w)
         better == IF bseen[w] = 0 THEN TRUE ELSE RewardOf(trials[s][bseen[w]].id) < RewardOf(Tr(w).id)
         tie == IF bseen[w] = 0 THEN FALSE ELSE RewardOf(trials[s][bseen[w]].id) = RewardOf(Tr(w).id)
     IN  \* among equally good trials either may be kept (the statement asks for *a* best trial)
         \/ /\ IF Tr(w).inf THEN FALSE ELSE IF better THEN TRUE ELSE tie
            /\ best' = [best EXCEPT ![s] = cur[w]]
         \/ /\ IF Tr(w).inf THEN TRUE ELSE ~better
            /\ UNCHANGED best
  /\ bseen' = [bseen EXCEPT ![w] = 0]
  /\ Goto(w, "k_rel")
  /\ UNCHANGED <<cf, op, cur, seen, newId, did, avars, trials, latest, active, studyLock, pendingCnt,
                 completedCnt, infeasibleCnt, delivered>>

Step(w) ==
  \/ AcqReg(w) \/ RelReg(w) \/ GocTest(w) \/ GocStore(w) \/ SetupTest(w) \/ SetupBegin(w) \/ SetupDo(w)
  \/ NextActive(w) \/ NextLookup(w) \/ NextStatus(w) \/ AcqStudy(w) \/ RelStudy(w)
  \/ CheckMax(w) \/ AcqAlg(w) \/ Propose(w) \/ Alloc(w) \/ AppendTrial(w)
  \/ ReadReward(w) \/ ShortAdd(w) \/ SetFitness(w) \/ Choose(w) \/ AddMeasurement(w) \/ EndLoop(w) \/ DoneTest(w) \/ DoneSet(w)
  \/ EvoPopulation(w) \/ RelAlg(w) \/ AlgFeedback(w)
  \/ CompleteCounts(w) \/ BestRead(w) \/ CompleteDone(w)
Next == \E w \in Workers : Step(w)
Spec == Init /\ [][Next]_vars
FairSpec == Spec /\ \A w \in Workers : WF_vars(Step(w))

-----------------------------------------------------------------------------
\* Invariants (every reachable state)
Pos(s) == 1..Len(trials[s])
OneStudyPerName == cf.named => Cardinality(studies) <= 1
IdsUnique == \A s \in studies : \A i, j \in Pos(s) : i # j => trials[s][i].id # trials[s][j].id
IdsDense  == \A s \in studies : \A i \in Pos(s) : trials[s][i].id = i
AtMostN   == \A s \in studies : Len(trials[s]) <= cf.n
OneGroupPerTrial == \A d \in delivered : trials[d[1]][d[2]].group = d[3]
FeedbackAtMostOnce == \A s \in studies : \A i \in Pos(s) : trials[s][i].fed <= 1
CompletedAtMostOnce == \A s \in studies : \A i \in Pos(s) : trials[s][i].ncomp <= 1
CountersExact == nProp = gProp /\ nFb = gFb      \* the algorithm never loses a proposal or a feedback
InfeasibleNeverBest == \A s \in studies : best[s] # 0 => ~trials[s][best[s]].inf
Holding(w) == pc[w] \in {"got", "sc_add", "f_fit", "user", "u_add", "d_test", "d_set", "m_acq", "m_rel", "f_acq", "f_pop", "f_rel",
                         "f_count", "k_acq", "k_counts", "k_best", "k_done", "k_rel"}
Creating(w) == pc[w] \in {"c_acq", "c_check", "p_acq", "c_propose", "c_alloc", "c_append"}
\* A worker is only ever handed a trial of its own group, and it opens a new trial only after the
\* trial of its group that it was shown is finished (weak reading; see OnePendingPerGroup).
SameGroupSamePending ==
  \A w \in Active :
    /\ Holding(w) => Tr(w).group = G(w)
    /\ Creating(w) => seen[w] = 0 \/ trials[S(w)][seen[w]].status = "C"
\* Counters are exact whenever the study lock is free.
NumWhere(s, P(_)) == Cardinality({i \in Pos(s) : P(trials[s][i])})
CountsConsistent ==
  \A s \in studies : studyLock[s] = NULL =>
    LET NotCounted(t) == t.ncomp = 0
        Sum[i \in 0..Len(trials[s])] == IF i = 0 THEN 0 ELSE Sum[i - 1] + trials[s][i].ncomp
    IN pendingCnt[s] = NumWhere(s, NotCounted) /\ completedCnt[s] = Sum[Len(trials[s])]
\* Commit points of the three check-then-act races: the earliest state from which a violation of
\* OneStudyPerName / CountersExact / FeedbackAtMostOnce is inevitable.
At(l) == {w \in Active : pc[w] = l}
InConstructor(w) == pc[w] \in {"goc_acq", "goc_test", "goc_store", "goc_rel", "setup_acq", "setup_test",
                                 "setup_begin", "setup_do", "setup_rel"}
SingleCreator == Cardinality(At("goc_store")) <= 1 /\ (At("goc_store") # {} => registry = NULL)
NoHalfSetup == \A w \in Active : ~InConstructor(w) => algDone
SetupAtomic ==
  /\ Cardinality(At("setup_begin") \cup At("setup_do")) + (IF algDone THEN 1 ELSE 0) <= 1
  /\ NoHalfSetup
SingleCompleter ==
  \A w1, w2 \in At("d_set") : S(w1) = S(w2) /\ cur[w1] = cur[w2] => w1 = w2
Quiescent == \A w \in Workers : pc[w] = "stop"
NoDeadlock == Quiescent \/ ENABLED Next

\* At quiescence
Feasible(t) == t.status = "C" /\ ~t.inf
AllCompleted == \A s \in studies : \A i \in Pos(s) : trials[s][i].status = "C"
CountsAddUp == \A s \in studies :
  /\ completedCnt[s] = Len(trials[s]) /\ pendingCnt[s] = 0
  /\ infeasibleCnt[s] = NumWhere(s, LAMBDA t : t.inf)
BestIsMax == \A s \in studies :
  IF \E i \in Pos(s) : Feasible(trials[s][i])
  THEN /\ best[s] \in Pos(s) /\ Feasible(trials[s][best[s]])
       /\ \A i \in Pos(s) : Feasible(trials[s][i]) => RewardOf(trials[s][i].id) <= RewardOf(trials[s][best[s]].id)
  ELSE best[s] = 0
TotalTrials[Q \in SUBSET Workers] ==
  IF Q = {} THEN 0 ELSE LET x == CHOOSE y \in Q : TRUE IN Len(trials[x]) + TotalTrials[Q \ {x}]
FeedbackExactlyOnce ==
  /\ \A s \in studies : \A i \in Pos(s) : trials[s][i].fed = IF Feasible(trials[s][i]) THEN 1 ELSE 0
  /\ nFb = gFb /\ nProp = gProp
  /\ gProp = TotalTrials[studies]
ExactlyN == \A s \in studies : active[s] => Len(trials[s]) = cf.n
AtQuiescence == Quiescent => AllCompleted /\ CountsAddUp /\ BestIsMax /\ FeedbackExactlyOnce /\ ExactlyN

\* Strong reading of "same pending trial": NOT an invariant of the design (lookup happens outside
\* the study lock); kept to document the check-then-act (specs/C16_doc_onepending.cfg).
OnePendingPerGroup ==
  \A s \in studies : \A i, j \in Pos(s) :
    i # j /\ trials[s][i].group = trials[s][j].group => ~(trials[s][i].status = "P" /\ trials[s][j].status = "P")

\* Action properties
RegistryStable == [][registry # NULL => registry' = registry]_vars
StatusMonotone == [][\A s \in Workers : \A i \in Pos(s) :
                        /\ trials'[s][i].id = trials[s][i].id /\ trials'[s][i].group = trials[s][i].group
                        /\ trials[s][i].status = "C" => trials'[s][i].status = "C"]_vars
LatestMonotone == [][\A s \in Workers : \A g \in Groups : latest'[s][g] >= latest[s][g]]_vars

\* Liveness (under FairSpec, no state constraint)
Termination == <>[]Quiescent
=============================================================================
