SPECIFICATION Spec
CONSTANTS
  Threads = {1, 2}
  Deep = 1
  MaxDepth = 2
  ShallowDepth = 1
  Fams <- Families
  Mirror = FALSE
VIEW noact
INVARIANT NestingRule
INVARIANT ViewIsProjection
INVARIANT TimeitOK
INVARIANT Narrowing
INVARIANT QuiescentIsDefault
PROPERTY Restores
PROPERTY Isolation
PROPERTY RefusedIsNoop
PROPERTY InnerFaultIsNoop
