---------------------------- MODULE KeyPathUniv ----------------------------
(***************************************************************************)
(* The finite universes of C10 (shared by KeyPathModel.tla, which exports  *)
(* them with reference answers, and KeyPathLaws.tla, which re-computes     *)
(* them to check that every element came back from the harness).           *)
(***************************************************************************)
EXTENDS KeyPath
CONSTANTS Alphabet, MaxStr,            \* parser table: all strings up to MaxStr
          KeyLen, IntVals, PathDepth,  \* format/parse round-trip universe
          AKeys, ADepth,               \* path algebra universe
          VKeys, VSmallKeys, VDeep     \* nested values

\* algebra keys: 'a' '0' '10' 'a.b' '-1' and the ints -10 -1 0 1 10 (text/int look-alikes on purpose)
\* value keys:   'a' '0' 'a.b' '[0]' and the ints 0 1 -1
IV_small == {-11, -10, -1, 0, 1, 10, 11}
IV_tiny == {-1, 0, 10}
AK_quick == {StrKey(<<7>>), StrKey(<<3>>), StrKey(<<4, 3>>), StrKey(<<7, 2, 8>>), StrKey(<<1, 4>>),
             IntKey(-10), IntKey(-1), IntKey(0), IntKey(1), IntKey(10)}
AK_thorough == AK_quick \cup {StrKey(<<8>>), StrKey(<<1, 4, 3>>), StrKey(<<5, 3, 6>>), StrKey(<<9>>), IntKey(11), IntKey(-11)}
VK_quick == {StrKey(<<7>>), StrKey(<<3>>), StrKey(<<7, 2, 8>>), StrKey(<<5, 3, 6>>), IntKey(0), IntKey(1), IntKey(-1)}
VK_thorough == VK_quick \cup {StrKey(<<9>>), StrKey(<<8, 5, 2, 6>>), IntKey(10), StrKey(<<1, 4>>)}
VS_quick == {StrKey(<<7>>), IntKey(0), StrKey(<<7, 2, 8>>)}
VS_thorough == VS_quick \cup {StrKey(<<3>>), IntKey(1)}

KeyU == StrKeysUpTo(Alphabet, KeyLen) \cup IntKeysOf(IntVals)
PathU == UNION {[1..d -> KeyU] : d \in 0..PathDepth}
AU == UNION {[1..d -> AKeys] : d \in 0..ADepth}
V0 == {Leaf(0), Leaf(1)}
V1 == V0 \cup Level(VKeys, 2, V0)
V1s == V0 \cup Level(VSmallKeys, 1, V0)
V2 == V1 \cup Level(VKeys, 1, V1) \cup Level(VSmallKeys, 2, V1s)
V3 == V2 \cup Level(VSmallKeys, 1, V2)
ValU == IF VDeep THEN V3 ELSE V2

=============================================================================
