---------------------------- MODULE KeyPathUniv ----------------------------
(***************************************************************************)
(* The finite universes of C10 (shared by KeyPathModel.tla, which exports  *)
(* them with reference answers, and KeyPathLaws.tla, which re-computes     *)
(* them to check that every element came back from the harness).           *)
(***************************************************************************)
EXTENDS KeyPath
CONSTANTS Alphabet, MaxStr,            \* parser table: all strings up to MaxStr
          KeyLen, IntVals, PathDepth,  \* format/parse round-trip universe
          AKeys, ADepth,               \* path algebra universe
          VKeys, VSmallKeys, VDeep     \* nested values

\* algebra keys: 'a' 'ab' '0' '01' '10' 'a.b' '-1' and the ints -10 -1 0 10 (text/int look-alikes and string prefixes on purpose)
\* value keys:   'a' '0' 'a.b' '[0]' and the ints 0 1 -1
IV_small == {-11, -10, -1, 0, 1, 10, 11}
IV_tiny == {-1, 0, 10}
\* 'ab' and '01' are there because 'a' / '0' are proper STRING prefixes of them (and of the printed paths): prefix
\* tests, '-' and parent must follow the key sequences, not the printed text
AK_quick == {StrKey(<<7>>), StrKey(<<7, 8>>), StrKey(<<3>>), StrKey(<<3, 4>>), StrKey(<<4, 3>>), StrKey(<<7, 2, 8>>), StrKey(<<1, 4>>),
             IntKey(-10), IntKey(-1), IntKey(0), IntKey(10)}
AK_thorough == AK_quick \cup {StrKey(<<8>>), StrKey(<<5, 3, 6>>), StrKey(<<9>>), IntKey(1)}
VK_quick == {StrKey(<<7>>), StrKey(<<3>>), StrKey(<<7, 2, 8>>), StrKey(<<5, 3, 6>>), IntKey(0), IntKey(1), IntKey(-1)}
VK_thorough == VK_quick \cup {StrKey(<<9>>), StrKey(<<8, 5, 2, 6>>), IntKey(10), StrKey(<<1, 4>>)}
VS_quick == {StrKey(<<7>>), IntKey(0), StrKey(<<7, 2, 8>>)}
VS_thorough == VS_quick \cup {StrKey(<<3>>), IntKey(1)}

\* The universes take a dummy argument so that TLC does not evaluate them eagerly in runs that do not
\* need them (zero-arity constant definitions are all evaluated at start-up).
KeyU(u) == StrKeysUpTo(Alphabet, KeyLen) \cup IntKeysOf(IntVals)
StrU(u) == SeqsUpTo(Alphabet, MaxStr)
PathU(u) == UNION {[1..d -> KeyU(u)] : d \in 0..PathDepth}
AU(u) == UNION {[1..d -> AKeys] : d \in 0..ADepth}
V0 == {Leaf(0), Leaf(1)}
V1(u) == V0 \cup Level(VKeys, 2, V0)
V1s(u) == V0 \cup Level(VSmallKeys, 1, V0)
V2(u) == LET v1 == V1(u) IN v1 \cup Level(VKeys, 1, v1) \cup Level(VSmallKeys, 2, V1s(u))
V3(u) == LET v2 == V2(u) IN v2 \cup Level(VSmallKeys, 1, v2)
ValU(u) == IF VDeep THEN V3(u) ELSE V2(u)

=============================================================================
