SPECIFICATION Spec
CONSTANTS
  MaxNodes = 4
  Leafs = {101}
  MaxLen = 2
  MaxScope = 1
  MaxLevel = 3
  Mirror = FALSE
  Cache = "flush"
  InitSet = "diag"
  SimK = 0
CONSTRAINT LevelBound
VIEW view
PROPERTY NoCacheStaleness
PROPERTY ReadDoesNotWrite
