---------------------------- MODULE PatchCases ----------------------------
(* G04: the table of calls (Ops) made on every tree of the universe of Patch.tla and what each of them must produce      *)
(* (Expected), in the projection the conformance harness (pgverif/patchspec.py) observes on the real code:             *)
(*   patch / rebind : <<error class, resulting tree, containers that are still the same object, notifications         *)
(*                     <<container, relative paths>>, locations at which value_fn was called, written locations>>      *)
(*   rbdict         : get_rebind_dict(fn, tree) as <<path, new value>> in order                                       *)
(*   query          : the selected key paths in order                                                                  *)
(*   desc           : sym_descendants as <<"n", path>> for a node / the value for a leaf, in order                     *)
(*   trav           : <<events up to the first STOP, returned flag>>                                                   *)
(* Expected is built from the ...Ref definitions (the documented meaning); Patch.tla proves Op = Ref on the universe. *)
EXTENDS Patch, Json, IOUtils

Cross2(A, B, F(_, _)) == FlattenSeq([i \in 1..Len(A) |-> [j \in 1..Len(B) |-> F(A[i], B[j])]])
Bools == <<TRUE, FALSE>>
OtherModes == <<"skip", "ctx_off", "ctx_off_explicit">>
PatchOps == Cross2(PatchConds, Vfs, LAMBDA c, vf : <<"patch", c, vf, "default">>)
            \o Cross2(ModeConds, OtherModes, LAMBDA c, m : <<"patch", c, VF_K9, m>>)
RebindOps == FlattenSeq([i \in 1..Len(RebindConds) |->
               Cross2(RebindVfs, Bools, LAMBDA vf, raise : <<"rebind", RebindConds[i], vf, raise>>)])
AllConds == PatchConds \o LambdaConds
RbDictOps == Cross2(AllConds, Vfs, LAMBDA c, vf : <<"rbdict", c, vf>>)
QueryOps == Cross2(Selectors, Bools, LAMBDA c, en : <<"query", c, en>>)
DescOps == FlattenSeq([i \in 1..Len(Wheres) |-> Cross2(Opts, Bools, LAMBDA o, self : <<"desc", Wheres[i], o, self>>)])
TravOps == [k \in 1..Len(Visitors) |-> <<"trav", Visitors[k]>>]
Ops == PatchOps \o RebindOps \o RbDictOps \o QueryOps \o DescOps \o TravOps
NOps == Len(Ops)

ProjAt(t, p) == IF IsCont(At(t, p)) THEN <<"n", p>> ELSE At(t, p)
NotifSeq(t, S) ==
  LET ab == DocSeq(t, Above(t, S)) IN
  [k \in 1..Len(ab) |-> <<ab[k], LET below == DocSeq(t, {q \in S : IsStrictPrefix(ab[k], q)})
                                 IN [m \in 1..Len(below) |-> Rel(ab[k], below[m])] \o <<>>>>] \o <<>>
ExpRebind(t, f, raise, mode) ==
  LET r == RebindRef(t, f, raise, mode)
      calls == Calls(t, f)
  IN <<r.err, r.tree, DocSeq(t, r.kept),
       IF r.err = "ok" /\ Notifies(mode) THEN NotifSeq(t, Sel(t, f)) ELSE <<>>,
       [k \in 1..Len(calls) |-> ProjAt(t, calls[k])] \o <<>>,
       r.sel>>
Expected(t, op) ==
  CASE op[1] = "patch" -> ExpRebind(t, <<op[2], op[3]>>, FALSE, op[4])
    [] op[1] = "rebind" -> ExpRebind(t, <<op[2], op[3]>>, op[4], "default")
    [] op[1] = "rbdict" -> LET f == <<op[2], op[3]>>
                               S == DocSeq(t, Sel(t, f))
                           IN [k \in 1..Len(S) |-> <<S[k], NewAt(f, t, S[k])>>] \o <<>>
    [] op[1] = "query" -> QueryRef(t, op[2], op[3])
    [] op[1] = "desc" -> LET d == DescRef(t, op[2], op[3], op[4]) IN [k \in 1..Len(d) |-> ProjAt(t, d[k])] \o <<>>
    [] OTHER -> LET r == TravRef(t, op[2]) IN <<r.ev, r.ok>>

\* the regex engine is validated against Python's `re`: every regex of the families on every key / path string of the universe
AllRegexes == KeyRegexes \o PathRegexes
Strings == SetToSeq(UNION {{PathChars(p) : p \in LocSet(U[i])} \cup {KeyChars(Last(p)) : p \in LocSet(U[i]) \ {<<>>}} : i \in 1..N})
Bit(b) == IF b THEN 1 ELSE 0
RegexTable == [r \in 1..Len(AllRegexes) |-> [s \in 1..Len(Strings) |->
                 <<Bit(ReMatch(AllRegexes[r], Strings[s])), Bit(ReFull(AllRegexes[r], Strings[s])), Bit(ReSearch(AllRegexes[r], Strings[s]))>>]]
=============================================================================
