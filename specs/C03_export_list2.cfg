INIT Init
NEXT ExpNext
CONSTANTS
  U = "quick"
  Kind = "list2"
  InitPartial = FALSE
  Mirror = FALSE
  MaxLevel = 40
  Small = FALSE
  Avoid = TRUE
  SimK = 1
  AccW = TRUE
  Acts = {"xslice", "slice", "ldel", "lins", "lset", "inplace"}
