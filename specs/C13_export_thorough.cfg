SPECIFICATION HSpec
CONSTANTS
  IterUniverse <- U_tiny
  MaxSize = 120
  HyperUniverse <- H_thorough
  NumDnas = 20
