SPECIFICATION Spec
CONSTANTS
  U = "seq"
  Chunks = 4
INVARIANT Holds
