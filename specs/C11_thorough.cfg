SPECIFICATION Spec
CONSTANTS
  IterUniverse <- U_thorough
  MaxSize = 200
INVARIANT Exact
INVARIANT Faithful
INVARIANT FirstIsLeast
INVARIANT Increasing
