SPECIFICATION Spec
CONSTANTS
  NKeys = 2
  MaxDepth = 2
  Regs = {1, 2}
  Mirror = FALSE
  MaxLevel = 100
  SimK = 0
  Ops = {"add", "remove", "inplace", "pure", "copy", "rebase", "clear", "subtree"}
VIEW view
INVARIANT TrieWF
INVARIANT Refines
INVARIANT Canonical
INVARIANT ObsAgree
