SPECIFICATION HSpec
CONSTANTS
  IterUniverse <- U_tiny
  MaxSize = 40
  HyperUniverse <- H_quick
  NumDnas = 4
