SPECIFICATION Spec
CONSTANTS
  Tier = "thorough"
  Mode = "observed"
  SameRule = "intended"
INVARIANT LawsHold
INVARIANT PatchDone
INVARIANT Applicable
