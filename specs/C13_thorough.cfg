SPECIFICATION HSpec
CONSTANTS
  IterUniverse <- U_tiny
  MaxSize = 120
  HyperUniverse <- H_thorough
INVARIANT NoPlaceholderLeft
INVARIANT ShapeOK
INVARIANT InverseLaw
INVARIANT PairwiseDifferent
INVARIANT HExact
INVARIANT Increasing
INVARIANT TypedOK
