#!/bin/sh
# G05: Apalache inductive invariant for the value-scope save/restore mechanism (specs/apalache/ScopeValInd.tla).
# Exit 0: base + step + goal hold AND both negative controls are refuted; 1 otherwise.  Scratch under $TMPDIR, removed.
set -u
here=$(cd "$(dirname "$0")/.." && pwd)
out=$(mktemp -d "${TMPDIR:-/tmp}/g05.XXXXXX")
trap 'rm -rf "$out"' EXIT
cp "$here/specs/apalache/ScopeValInd.tla" "$out/"
# mutant: leaving a scope deletes the key instead of restoring the saved value
sed -e 's/MODULE ScopeValInd/MODULE ScopeValIndMut/' -e 's/val. = \[val EXCEPT !\[f.m\] = f.si\]/val'"'"' = [val EXCEPT ![f.m] = -1]/' \
  "$out/ScopeValInd.tla" > "$out/ScopeValIndMut.tla"
grep -q 'f.m\] = -1' "$out/ScopeValIndMut.tla" || { echo "G05: mutant not generated"; exit 2; }
run() { # name module init inv length expect(OK|VIOLATION)
  log="$out/$1.log"
  (cd "$out" && timeout 900 apalache-mc check --init="$3" --inv="$4" --length="$5" --out-dir="$out/o" "$2.tla" >"$log" 2>&1)
  if grep -q 'The outcome is: NoError' "$log"; then got=OK; elif grep -q 'The outcome is: Error' "$log"; then got=VIOLATION; else got=FAIL; fi
  echo "G05 $1: $got (expected $6)"
  [ "$got" = "$6" ]
}
rc=0
run base ScopeValInd Init IndInv 0 OK || rc=1
run step ScopeValInd IndInit IndInv 1 OK || rc=1
run goal ScopeValInd IndInit RestoresStep 1 OK || rc=1
run nonvacuous ScopeValInd IndInit NonVacuous 0 VIOLATION || rc=1
run mutant-step ScopeValIndMut IndInit IndInv 1 VIOLATION || rc=1
run mutant-goal ScopeValIndMut IndInit RestoresStep 1 VIOLATION || rc=1
exit $rc
