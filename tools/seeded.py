#!/venv/bin/python
"""Evaluate one seeded change: tools/seeded.py <dir with patch.diff, demo.py, meta.json> <PROP> <seeded-id> [--checks C01,C02]

Confirms in a scratch worktree of /repo HEAD (never /repo itself): demo passes clean / fails with the change, the
repository's baseline tests still pass with the change, and runs the named checks (quick tier) against the changed tree.
Writes /verif/seeded/<seeded-id>/ {patch.diff, demo.py, meta.json}.
"""
import json, os, shutil, subprocess, sys, tempfile, time, xml.etree.ElementTree as ET
src, prop, sid = sys.argv[1], sys.argv[2], sys.argv[3]
checks = [prop]
if '--checks' in sys.argv:
  checks = sys.argv[sys.argv.index('--checks') + 1].split(',')
skip_suite = '--skip-suite' in sys.argv
wt = tempfile.mkdtemp(prefix='wt-seed-', dir='/tmp'); os.rmdir(wt)
subprocess.run(['git', '-C', '/repo', 'worktree', 'add', '--detach', '-q', wt, 'HEAD'], check=True)
res = {'property': prop, 'id': sid, 'repo_head': subprocess.run(['git', '-C', '/repo', 'rev-parse', '--short', 'HEAD'], capture_output=True, text=True).stdout.strip()}
try:
  env = dict(os.environ, PYTHONPATH=wt); env.pop('PYGLOVE_VERIF', None)
  demo = os.path.join(src, 'demo.py')
  r0 = subprocess.run(['/venv/bin/python', demo], env=env, capture_output=True, text=True, timeout=600, cwd=wt)
  res['demo_clean_exit'] = r0.returncode
  ap = subprocess.run(['git', '-C', wt, 'apply', os.path.abspath(os.path.join(src, 'patch.diff'))], capture_output=True, text=True)
  res['patch_applies'] = ap.returncode == 0
  if ap.returncode != 0:
    print('PATCH DOES NOT APPLY', ap.stderr[-500:])
  else:
    r1 = subprocess.run(['/venv/bin/python', demo], env=env, capture_output=True, text=True, timeout=600, cwd=wt)
    res['demo_changed_exit'] = r1.returncode
    res['demo_changed_tail'] = (r1.stdout + r1.stderr)[-400:]
    if not skip_suite:
      base = json.load(open('/root/.vp/BASELINE.json')); want = set(base['stable_pass'])
      out = tempfile.mktemp(suffix='.xml', dir='/verif/.work')
      p = subprocess.run(['/venv/bin/python', '-m', 'pytest', '-q', '-p', 'no:cacheprovider', '--timeout=900', '-n', '10',
                          '--continue-on-collection-errors', '--junitxml=' + out], cwd=wt, env=env, capture_output=True, text=True)
      passed = set()
      for tc in ET.parse(out).getroot().iter('testcase'):
        if not any(c.tag in ('failure', 'error', 'skipped') for c in tc):
          passed.add(f"{tc.get('classname')}::{tc.get('name')}")
      os.remove(out)
      res['suite_summary'] = p.stdout.strip().splitlines()[-1]
      res['baseline_missing'] = sorted(want - passed)
    res['checks'] = {}
    for c in checks:
      t0 = time.time()
      e2 = dict(os.environ, VERIF_REPO=wt)
      pr = subprocess.run(['./check', c, '--tier', 'quick'], cwd='/verif', env=e2, capture_output=True, text=True, timeout=3000)
      lines = [l for l in (pr.stdout + pr.stderr).splitlines() if l.startswith(('VIOLATION', '  signature', 'OK ', 'MACHINERY', 'KNOWN'))]
      res['checks'][c] = {'exit': pr.returncode, 'wall_s': round(time.time() - t0, 1), 'lines': lines[:8]}
      # restore the evidence file of the unchanged tree afterwards (the run above rewrote it for the changed tree)
      subprocess.run(['git', '-C', '/verif', 'checkout', '--', f'evidence/{c}.json'], capture_output=True)
finally:
  subprocess.run(['git', '-C', '/repo', 'worktree', 'remove', '--force', wt])
dst = f'/verif/seeded/{sid}'
os.makedirs(dst, exist_ok=True)
if os.path.realpath(src) != os.path.realpath(dst):
  shutil.copy(os.path.join(src, 'patch.diff'), dst + '/patch.diff')
  shutil.copy(os.path.join(src, 'demo.py'), dst + '/demo.py')
meta = json.load(open(os.path.join(src, 'meta.json'))) if os.path.exists(os.path.join(src, 'meta.json')) else {}
meta['breaks_property'] = prop
prev = {}
if os.path.exists(dst + '/meta.json'):
  try:
    prev = json.load(open(dst + '/meta.json'))
  except Exception:
    prev = {}
pc = prev.get('confirmed_by_lead', {})
for k in ('suite_summary', 'baseline_missing', 'baseline_note'):
  if k not in res and k in pc:
    res[k] = pc[k]
hist = prev.get('check_history', [])
if pc.get('checks'):
  hist.append({'repo_head': pc.get('repo_head'), 'checks': {c: v.get('exit') for c, v in pc['checks'].items()}})
meta['check_history'] = hist
for k in ('summary', 'needs', 'files', 'suite'):
  if k not in meta and k in prev:
    meta[k] = prev[k]
meta['confirmed_by_lead'] = res
json.dump(meta, open(dst + '/meta.json', 'w'), indent=1)
print(json.dumps(res, indent=1)[:3000])
