#!/venv/bin/python
"""Runs the repository suite (guard off) and checks every BASELINE stable_pass test still passes."""
import json, os, subprocess, sys, tempfile, xml.etree.ElementTree as ET
base = json.load(open('/root/.vp/BASELINE.json'))
want = set(base['stable_pass'])
out = tempfile.mktemp(suffix='.xml', dir='/verif/.work')
env = dict(os.environ); env.pop('PYGLOVE_VERIF', None)
n = sys.argv[1] if len(sys.argv) > 1 else '12'
cmd = ['/venv/bin/python', '-m', 'pytest', '-q', '-p', 'no:cacheprovider', '--timeout=900',
       '--continue-on-collection-errors', '--junitxml=' + out] + (['-n', n] if n != '0' else [])
p = subprocess.run(cmd, cwd=os.environ.get('BASELINE_REPO', '/repo'), env=env, capture_output=True, text=True)
passed = set()
for tc in ET.parse(out).getroot().iter('testcase'):
  if not any(c.tag in ('failure', 'error', 'skipped') for c in tc):
    passed.add(f"{tc.get('classname')}::{tc.get('name')}")
os.remove(out)
missing = sorted(want - passed)
print(p.stdout.strip().splitlines()[-1])
print(f'baseline stable_pass: {len(want)}; passing now: {len(want & passed)}; missing: {len(missing)}')
for m in missing[:40]:
  print('  MISSING', m)
sys.exit(1 if missing else 0)
