#!/venv/bin/python
"""Adds or replaces one entry of /verif/known_findings.json (atomic, file-locked).

usage: tools/add_finding.py '<json object>'    keys: property, id, status (open|fixed), signature{}, what, witness
Never called by a check at run time.
"""
import fcntl, json, sys
P = '/verif/known_findings.json'
entry = json.loads(sys.argv[1])
for k in ('property', 'id', 'status', 'what'):
  assert k in entry, k
with open(P, 'a+') as f:
  fcntl.flock(f, fcntl.LOCK_EX)
  f.seek(0)
  txt = f.read()
  data = json.loads(txt) if txt.strip() else {'findings': []}
  data['findings'] = [x for x in data['findings'] if x.get('id') != entry['id']] + [entry]
  data['findings'].sort(key=lambda x: (x['property'], x['id']))
  f.seek(0); f.truncate()
  f.write(json.dumps(data, indent=1) + '\n')
print('ok', entry['id'])
