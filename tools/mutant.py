#!/venv/bin/python
"""Apply one calibration mutant (by name prefix, e.g. M01) to /repo, run a command, undo.

usage: tools/mutant.py M01 -- ./check C01 --tier quick
"""
import subprocess, sys
sys.path.insert(0, '/verif/tools')
from mutants_e import M
name = sys.argv[1]
cmd = sys.argv[sys.argv.index('--') + 1:]
m = [x for x in M if x[0].startswith(name)]
assert len(m) == 1, m
_, f, old, new = m[0]
p = '/repo/pyglove/' + f
s = open(p).read()
if s.count(old) != 1:
  print(f'mutant {name}: pattern occurs {s.count(old)} times in {f}'); sys.exit(3)
assert subprocess.run(['git', '-C', '/repo', 'status', '--porcelain'], capture_output=True, text=True).stdout.strip() == '', 'repo dirty'
open(p, 'w').write(s.replace(old, new))
try:
  r = subprocess.run(cmd, cwd='/verif')
  print(f'[mutant {m[0][0]}] exit={r.returncode}')
finally:
  subprocess.run(['git', '-C', '/repo', 'checkout', '--', '.'])
sys.exit(r.returncode)
