#!/venv/bin/python
"""Apply one calibration mutant (by name prefix, e.g. M01) or a patch file in a SCRATCH worktree of /repo,
run a command there with VERIF_REPO pointing at it, remove the worktree.  /repo itself is never touched.

usage: tools/mutant.py M01 -- ./check C01 --tier quick
       tools/mutant.py path/to/patch.diff -- ./check C01 --tier quick
"""
import os, subprocess, sys, tempfile
sys.path.insert(0, '/verif/tools')
from mutants_e import M
name = sys.argv[1]
cmd = sys.argv[sys.argv.index('--') + 1:]
wt = tempfile.mkdtemp(prefix='wt-lead-', dir='/tmp')
os.rmdir(wt)
subprocess.run(['git', '-C', '/repo', 'worktree', 'add', '--detach', '-q', wt, 'HEAD'], check=True)
rc = 3
try:
  if os.path.exists(name):
    subprocess.run(['git', '-C', wt, 'apply', os.path.abspath(name)], check=True)
    label = name
  else:
    m = [x for x in M if x[0].startswith(name)]
    assert len(m) == 1, m
    label, f, old, new = m[0]
    p = wt + '/pyglove/' + f
    s = open(p).read()
    if s.count(old) != 1:
      print(f'mutant {name}: pattern occurs {s.count(old)} times in {f}'); sys.exit(3)
    open(p, 'w').write(s.replace(old, new))
  env = dict(os.environ, VERIF_REPO=wt)
  r = subprocess.run(cmd, cwd='/verif', env=env)
  rc = r.returncode
  print(f'[mutant {label}] exit={rc}')
finally:
  subprocess.run(['git', '-C', '/repo', 'worktree', 'remove', '--force', wt])
sys.exit(rc)
