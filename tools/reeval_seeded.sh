#!/bin/sh
# usage: tools/reeval_seeded.sh C01 C02 ...  : re-evaluates every /verif/seeded/<P>-* (skip-suite) against /repo HEAD
cd /verif || exit 2
for p in "$@"; do
  for d in seeded/$p-*; do
    sid=$(basename $d)
    echo "=== $sid"
    tools/seeded.py /verif/seeded/$sid $p $sid --skip-suite 2>&1 | grep -E '"demo_changed_exit|"exit"|PATCH' | cut -c1-120
  done
done
echo LANEDONE
