#!/venv/bin/python
"""usage: tools/seeded_table.py r3s   -> markdown table of /verif/seeded/*-<tag><k> (summary, verdict history, first signature)."""
import glob, json, re, sys

tag = sys.argv[1]
rows = []
for d in sorted(glob.glob(f'/verif/seeded/C??-{tag}?')):
  sid = d.split('/')[-1]
  m = json.load(open(d + '/meta.json'))
  prop = sid[:3]
  src = m.get('source_meta') or m
  summary = (src.get('summary') or m.get('summary') or '').replace('|', '/').replace('\n', ' ')
  summary = summary[:150] + ('...' if len(summary) > 150 else '')
  hist = [h['checks'].get(prop) for h in m.get('check_history', []) if prop in h.get('checks', {})]
  last = (m.get('confirmed_by_lead', {}).get('checks', {}).get(prop) or {})
  exits = hist + [last.get('exit')]
  first = exits[0]
  verdict = 'caught' if first == 1 else f'missed (exit {first}), then caught' if exits[-1] == 1 else f'MISSED (exit {exits[-1]})'
  sig = ''
  for ln in last.get('lines', []):
    mm = re.search(r'signature: (.*)$', ln)
    if mm:
      sig = mm.group(1)[:80]
      break
  rows.append(f'| {sid} | {summary} | {verdict} | `{sig}` |')
print('| id | change (summary by its author) | verdict | first signature reported |')
print('|---|---|---|---|')
print('\n'.join(rows))
