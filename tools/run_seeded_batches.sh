#!/bin/sh
# usage: tools/run_seeded_batches.sh C12 C14 ...   (evaluates /tmp/mutants/<P>/{1,2,3} one after the other)
cd /verif || exit 2
for p in "$@"; do
  for k in 1 2 3; do
    echo "=== $p-$k"
    tools/seeded.py /tmp/mutants/$p/$k $p $p-s$k 2>&1 | grep -E '"demo_clean|"demo_changed_exit|suite_summary|baseline_missing|"exit"|signature|VIOLATION|OK |PATCH|KNOWN' | cut -c1-230
  done
  git -C /repo worktree remove --force /tmp/mut-$p 2>/dev/null
done
echo ALLDONE
