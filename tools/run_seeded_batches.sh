#!/bin/sh
# usage: [MUT_DIR=/tmp/mutants] [TAG=s] [WT_PREFIX=/tmp/mut-] tools/run_seeded_batches.sh C12 C14 ...
# evaluates $MUT_DIR/<P>/{1,2,3} one after the other into /verif/seeded/<P>-<TAG><k>
cd /verif || exit 2
MUT_DIR="${MUT_DIR:-/tmp/mutants}"; TAG="${TAG:-s}"; WT_PREFIX="${WT_PREFIX:-/tmp/mut-}"
for p in "$@"; do
  for k in 1 2 3; do
    echo "=== $p-$k"
    if [ -f "$MUT_DIR/$p/$k/patch.diff" ]; then
      tools/seeded.py "$MUT_DIR/$p/$k" "$p" "$p-$TAG$k" 2>&1 | grep -E '"demo_clean|"demo_changed_exit|suite_summary|baseline_missing|"exit"|signature|VIOLATION|OK |PATCH|KNOWN' | cut -c1-230
    else
      echo "no patch at $MUT_DIR/$p/$k"
    fi
  done
  git -C /repo worktree remove --force "$WT_PREFIX$p" 2>/dev/null
done
echo ALLDONE
